package rules

import (
	"fmt"
	"go/token"
	"go/types"
	"sort"
	"strings"

	"golang.org/x/tools/go/ssa"

	"verif/lint/internal/core"
)

func init() { register("C15", c15) }

// c15Stop: the call-graph closure never enters the logging and metrics packages (DESIGN §1.3a).
func c15Stop(fn *ssa.Function) bool {
	rel := core.RelPkg(fn)
	return rel == "common/log" || strings.HasPrefix(rel, "common/log/") || rel == "metrics" || strings.HasPrefix(rel, "metrics/")
}

func isByteSlice(t types.Type) bool {
	s, ok := t.Underlying().(*types.Slice)
	if !ok {
		return false
	}
	b, ok := s.Elem().Underlying().(*types.Basic)
	return ok && b.Kind() == types.Uint8
}

func c15(c *core.Ctx) {
	const p2p = "network/p2p"
	ev := newStaticEval(c)

	// byte-order decoders: where a length or code is taken from bytes that came off a connection
	var wireSources []*types.Func
	srcWidth := map[*types.Func]int64{}
	c.Run("anchors", func() {
		for _, order := range []string{"bigEndian", "littleEndian"} {
			for name, w := range map[string]int64{"Uint16": 2, "Uint32": 4, "Uint64": 8} {
				f := c.StdFunc("encoding/binary", order+"."+name)
				wireSources = append(wireSources, f)
				srcWidth[f] = w
			}
		}
		// result lengths of resolved functions (lower bounds; trusted table)
		ev.lenFacts[c.FuncObj("common/crypto.Keccak256")] = 32   // sha3.NewKeccak256().Sum(nil)
		ev.lenFacts[c.StdFunc("crypto/elliptic", "Marshal")] = 1 // 1+2*byteLen
	})
	isWireSource := func(v ssa.Value) *types.Func {
		ci, ok := v.(ssa.CallInstruction)
		if !ok {
			return nil
		}
		o := core.CalleeObj(ci)
		for _, s := range wireSources {
			if o != nil && o.Origin() == s {
				return s
			}
		}
		return nil
	}
	sliceHasWire := func(sl map[ssa.Value]bool) bool {
		for v := range sl {
			if isWireSource(v) != nil {
				return true
			}
		}
		return false
	}
	inPkgs := func(fn *ssa.Function, rels ...string) bool {
		r := core.RelPkg(fn)
		for _, x := range rels {
			if r == x {
				return true
			}
		}
		return false
	}
	stop := func(fn *ssa.Function) bool { return c15Stop(fn) || isTestHelper(c, fn) }

	// -----------------------------------------------------------------------------------------
	c.Clause("C15.1", "an allocation whose size was read off the connection is dominated by a rejection of sizes above a constant ≤ params.MaxPackageLength; every rlp stream over received bytes is limited to the bytes received")
	c.Run("wire-alloc", func() {
		maxPkg, _ := constInt(c.Const("chain/params.MaxPackageLength"))
		c.CheckTrivial("MaxPackageLength≤64MiB", "constant-value", maxPkg > 0 && maxPkg <= 64<<20, c.Const("chain/params.MaxPackageLength").Pos(), "the frame limit is %d bytes", maxPkg)
		n := 0
		for _, fn := range c.SrcFuncs {
			if !inPkgs(fn, p2p, "network") || isTestHelper(c, fn) {
				continue
			}
			k := 0
			for _, b := range fn.Blocks {
				for _, in := range b.Instrs {
					ms, ok := in.(*ssa.MakeSlice)
					if !ok || !(sliceHasWire(core.Slice(ms.Len)) || sliceHasWire(core.Slice(ms.Cap))) {
						continue
					}
					n++
					key := "make←wire/" + shortFn(fn)
					if k > 0 {
						key += "#" + string(rune('a'+k))
					}
					k++
					size := stripConv(ms.Len)
					if isWireSource(size) == nil || stripConv(ms.Cap) != size {
						c.Undecided(key, "wire-bound", ms.Pos(), "the allocation size is computed from a value read off the connection in a way this rule does not follow")
						continue
					}
					_, _, hi, hasHi := ev.boundsAt(ms, func(v ssa.Value) bool { return stripConv(v) == size })
					c.Check(key, "wire-bound", hasHi && hi <= maxPkg, ms.Pos(),
						"in %s the size read off the connection must be rejected above a constant ≤ MaxPackageLength (%d) before make (bound found: %v %d)", shortFn(fn), maxPkg, hasHi, hi)
				}
			}
		}
		c.Exactly("wire-sized-allocations", n, 2) // Peer.readConn, readHandshakeBuf
	})
	c.Run("rlp-stream-limit", func() {
		newStream := c.FuncObj("common/rlp.NewStream")
		content := c.FieldVar(p2p+".Msg", "Content")
		bytesReader := c.AllPkgs["bytes"].Types.Scope().Lookup("Reader").Type()
		newReader := c.StdFunc("bytes", "NewReader")
		n := 0
		for _, s := range c.CallSites(newStream) {
			if !inPkgs(s.Caller, p2p, "network") || isTestHelper(c, s.Caller) {
				continue
			}
			n++
			args := s.Instr.Common().Args
			// the reader is a *bytes.Reader: rlp.Stream.Reset then limits the stream to its length even when inputLimit is 0
			isBR := false
			if mi, ok := args[0].(*ssa.MakeInterface); ok {
				if p, ok := mi.X.Type().(*types.Pointer); ok && types.Identical(p.Elem(), bytesReader) {
					isBR = true
				}
			}
			c.Check("NewStream(bytes.Reader)/"+shortFn(s.Caller), "stream-limit", isBR, s.Instr.Pos(), "the rlp stream in %s reads from a *bytes.Reader over the received buffer (so its input limit is the buffer length)", shortFn(s.Caller))
		}
		c.Exactly("rlp-streams-on-network-input", n, 3) // Msg.Decode, readHandshakeReqMsg, readHandshakeRespMsg
		dec := c.Fn(p2p + ".Msg.Decode")
		for _, g := range core.CallsIn(dec, newStream) {
			a := g.Common().Args
			rs := core.Slice(a[0])
			ok := core.SliceHasCall(rs, newReader) && core.SliceHasField(rs, content)
			okLim := false
			for v := range core.Slice(a[1]) {
				if la := builtinCall(v, "len"); la != nil && core.SliceHasField(core.Slice(la[0]), content) {
					okLim = true
				}
			}
			c.Check("Msg.Decode:NewStream(Content,len(Content))", "value-flow", ok && okLim, g.Pos(), "Msg.Decode reads msg.Content and limits the stream to len(msg.Content)")
		}
	})

	// -----------------------------------------------------------------------------------------
	c.Clause("C15.2", "preconditions of panicking library calls and of constant-bound slicing hold for every input: CryptBlocks on whole blocks only, byte-order decoders and fixed slices on buffers of proven length, make(len(x)−k) only after len(x) ≥ k was tested")
	c.Run("cryptblocks", func() {
		crypt := c.StdFunc("crypto/cipher", "BlockMode.CryptBlocks")
		blockSize := []*types.Func{c.StdFunc("crypto/cipher", "Block.BlockSize"), c.StdFunc("crypto/cipher", "BlockMode.BlockSize")}
		padding := c.FuncObj("common/crypto.PKCS5Padding")
		aesBS, _ := constInt(c.AllPkgs["crypto/aes"].Types.Scope().Lookup("BlockSize").(*types.Const))
		sites := 0
		for _, s := range c.CallSites(crypt) {
			if isTestHelper(c, s.Caller) {
				continue
			}
			sites++
			fn := s.Caller
			args := s.Instr.Common().Args // invoke: (dst, src)
			dst, src := args[0], args[1]
			key := "CryptBlocks/" + shortFn(fn)
			// src produced by the padding constructor: whole blocks by construction
			if ci, ok := src.(ssa.CallInstruction); ok && core.SameFamily(core.CalleeObj(ci), padding) {
				c.CheckTrivial(key+":src-padded", "precondition", true, s.Instr.Pos(), "the source is the result of PKCS5Padding (whole blocks by construction)")
			} else {
				isBS := func(v ssa.Value) bool {
					v = stripConv(v)
					if ci, ok := v.(ssa.CallInstruction); ok {
						for _, b := range blockSize {
							if core.SameFamily(core.CalleeObj(ci), b) {
								return true
							}
						}
					}
					k, ok := ev.Int(v)
					return ok && k == aesBS
				}
				ok := false
				for _, b := range fn.Blocks {
					ifi, isIf := b.Instrs[len(b.Instrs)-1].(*ssa.If)
					if !isIf {
						continue
					}
					cmp, isCmp := ifi.Cond.(*ssa.BinOp)
					if !isCmp || (cmp.Op != token.NEQ && cmp.Op != token.EQL) {
						continue
					}
					remV, zero := cmp.X, cmp.Y
					if _, isC := stripConv(remV).(*ssa.Const); isC {
						remV, zero = zero, remV
					}
					if z, isZ := ev.Int(zero); !isZ || z != 0 {
						continue
					}
					rem, isRem := stripConv(remV).(*ssa.BinOp)
					if !isRem || rem.Op != token.REM || !isLenOf(src)(rem.X) || !isBS(rem.Y) {
						continue
					}
					okEdge := 1 // NEQ: the false edge is "whole blocks"
					if cmp.Op == token.EQL {
						okEdge = 0
					}
					if edgeHolds(b, okEdge, s.Instr) {
						ok = true
					}
				}
				c.Check(key+":len(src)%BlockSize==0", "precondition", ok, s.Instr.Pos(), "in %s CryptBlocks must be dominated by a rejection of inputs whose length is not a multiple of the block size", shortFn(fn))
			}
			// dst is at least as long as src
			okDst := false
			if ms, isMs := dst.(*ssa.MakeSlice); isMs && isLenOf(src)(ms.Len) {
				okDst = true
			}
			c.Check(key+":len(dst)≥len(src)", "precondition", okDst, s.Instr.Pos(), "the destination is make([]byte, len(src))")
		}
		c.Exactly("CryptBlocks-sites", sites, 2)
	})

	var p2pClosure map[*ssa.Function]*ssa.Function
	var netClosure map[*ssa.Function]*ssa.Function
	c.Run("p2p-closure", func() {
		p2pClosure = cgClosure(c, []*ssa.Function{c.Fn(p2p + ".Peer.readLoop"), c.Fn(p2p + ".serverEncHandshake"), c.Fn(p2p + ".clientEncHandshake")}, stop)
	})
	sortedFns := func(m map[*ssa.Function]*ssa.Function) []*ssa.Function {
		var out []*ssa.Function
		for fn := range m {
			out = append(out, fn)
		}
		sort.Slice(out, func(i, j int) bool { return core.FuncName(out[i]) < core.FuncName(out[j]) })
		return out
	}

	c.Run("byteorder-and-fixed-slices", func() {
		nSrc, nSl := 0, 0
		for _, fn := range sortedFns(p2pClosure) {
			if !inPkgs(fn, p2p) {
				continue
			}
			for _, b := range fn.Blocks {
				for _, in := range b.Instrs {
					switch x := in.(type) {
					case ssa.CallInstruction:
						v, isV := x.(ssa.Value)
						if !isV || isWireSource(v) == nil {
							continue
						}
						src := isWireSource(v)
						nSrc++
						args := x.Common().Args
						buf := args[len(args)-1]
						got, ok := ev.Len(buf)
						if !ok {
							lo, hasLo, _, _ := ev.boundsAt(x, isLenOf(buf))
							got, ok = lo, hasLo
						}
						c.Check("byteorder/"+shortFn(fn)+":"+src.Name(), "precondition", ok && got >= srcWidth[src], x.Pos(), "%s needs %d bytes; proven length of its argument: %v %d", src.Name(), srcWidth[src], ok, got)
					case *ssa.Slice:
						if !isByteSlice(x.X.Type()) || (x.Low == nil && x.High == nil) {
							continue
						}
						need, static := int64(0), true
						desc := "["
						for i, bnd := range []ssa.Value{x.Low, x.High} {
							if bnd != nil {
								k, ok := ev.Int(bnd)
								if !ok {
									static = false
									break
								}
								if k > need {
									need = k
								}
								desc += fmt.Sprint(k)
							}
							if i == 0 {
								desc += ":"
							}
						}
						if !static {
							continue // variable bounds: not decided by this rule
						}
						desc += "]"
						nSl++
						got, ok := ev.Len(x.X)
						if !ok {
							lo, hasLo, _, _ := ev.boundsAt(x, isLenOf(x.X))
							got, ok = lo, hasLo
						}
						c.Check("slice/"+shortFn(fn)+desc, "bounds", ok && got >= need, x.Pos(), "in %s a byte slice is cut at constant %s: its length must be proven ≥ %d by construction or by a dominating length test (proven: %v %d)", shortFn(fn), desc, need, ok, got)
					}
				}
			}
		}
		c.Exactly("byteorder-decodes-in-p2p", nSrc, 3) // readConn, unpackFrame, readHandshakeBuf
		c.Floor("constant-cuts-of-byte-slices-in-p2p", nSl, 7)
	})
	c.Run("make-of-difference", func() {
		n := 0
		for _, fn := range sortedFns(p2pClosure) {
			if !inPkgs(fn, p2p, "common/crypto", "common/crypto/ecies") {
				continue
			}
			for _, b := range fn.Blocks {
				for _, in := range b.Instrs {
					ms, ok := in.(*ssa.MakeSlice)
					if !ok || !core.SliceHasOp(core.Slice(ms.Len), token.SUB) {
						continue
					}
					n++
					key := "make(len−k)/" + shortFn(fn)
					sub, isSub := stripConv(ms.Len).(*ssa.BinOp)
					if !isSub || sub.Op != token.SUB || builtinCall(stripConv(sub.X), "len") == nil {
						c.Undecided(key, "non-negative-size", ms.Pos(), "the allocation size contains a subtraction this rule does not follow")
						continue
					}
					lenV, k := stripConv(sub.X), sub.Y
					ok = false
					for _, gb := range fn.Blocks {
						ifi, isIf := gb.Instrs[len(gb.Instrs)-1].(*ssa.If)
						if !isIf {
							continue
						}
						cmp, isCmp := ifi.Cond.(*ssa.BinOp)
						if !isCmp {
							continue
						}
						op := cmp.Op
						switch {
						case sameExpr(stripConv(cmp.X), lenV, 0) && sameExpr(cmp.Y, k, 0):
						case sameExpr(stripConv(cmp.Y), lenV, 0) && sameExpr(cmp.X, k, 0):
							op = mirror(op)
						default:
							continue
						}
						for edge := 0; edge < 2; edge++ {
							o := op
							if edge == 1 {
								o = negate(o)
							}
							if (o == token.GEQ || o == token.GTR || o == token.EQL) && edgeHolds(gb, edge, ms) {
								ok = true
							}
						}
					}
					c.Check(key, "non-negative-size", ok, ms.Pos(), "in %s make([]T, len(x)−k) must be dominated by a test that rejects len(x) < k", shortFn(fn))
				}
			}
		}
		c.Floor("make-of-difference-in-crypto/p2p", n, 1) // ecies.symDecrypt
	})

	// -----------------------------------------------------------------------------------------
	c.Clause("C15.3", "every message handler and the protocol handshake leave on a decode error; the two encryption-handshake readers may ignore it only while their targets consist of fixed-size byte arrays")
	var handlers []*ssa.Function
	c.Run("decode-heeded", func() {
		work := c.Fn("network.ProtocolManager.work")
		msgPtr := types.NewPointer(c.Named(p2p + ".Msg"))
		decode := c.Method(p2p+".Msg", "Decode")
		seen := map[*ssa.Function]bool{}
		for _, ci := range core.AllCalls(work) {
			callee := core.StaticFn(ci)
			if callee == nil || core.RelPkg(callee) != "network" || callee.Signature.Recv() == nil {
				continue
			}
			ps := callee.Signature.Params()
			if ps.Len() == 0 || !types.Identical(ps.At(0).Type(), msgPtr) || seen[callee] {
				continue
			}
			seen[callee] = true
			handlers = append(handlers, callee)
			heeded(c, callee, decode, core.ErrNonNil, 1, nil)
		}
		c.Exactly("handlers-dispatched-by-work", len(handlers), 12)
		heeded(c, c.Fn("network.peer.Handshake"), decode, core.ErrNonNil, 1, nil)

		streamDecode := c.Method("common/rlp.Stream", "Decode")
		n := 0
		for _, spec := range []string{p2p + ".readHandshakeReqMsg", p2p + ".readHandshakeRespMsg"} {
			fn := c.Fn(spec)
			for _, g := range core.CallsIn(fn, streamDecode) {
				n++
				if ok, _ := core.CallHeeded(g, core.ErrNonNil, nil); ok {
					c.Check(shortFn(fn)+"→Stream.Decode", "heeded-guard", true, g.Pos(), "the decode error is heeded")
					continue
				}
				// ignored: harmless only if whatever a failed or partial decode leaves behind could also have been sent well-formed
				a := g.Common().Args
				fixed, tname := false, "?"
				if mi, ok := a[len(a)-1].(*ssa.MakeInterface); ok {
					if p, ok := mi.X.Type().Underlying().(*types.Pointer); ok {
						tname = types.TypeString(p.Elem(), relQualifier)
						if st, ok := p.Elem().Underlying().(*types.Struct); ok && st.NumFields() > 0 {
							fixed = true
							for i := 0; i < st.NumFields(); i++ {
								arr, isArr := st.Field(i).Type().Underlying().(*types.Array)
								if !isArr {
									fixed = false
									break
								}
								if eb, isB := arr.Elem().Underlying().(*types.Basic); !isB || eb.Kind() != types.Uint8 {
									fixed = false
								}
							}
						}
						if _, isAlloc := mi.X.(*ssa.Alloc); !isAlloc {
							fixed = false // the target must be the freshly allocated, non-nil object
						}
					}
				}
				c.Check(shortFn(fn)+"→Stream.Decode(ignored)", "exempt-while", fixed, g.Pos(),
					"the decode error is ignored; exempt only while the target %s is a fresh struct of fixed-size byte arrays (any content a failed decode leaves is also reachable with a well-formed package, and later steps validate the key material)", tname)
			}
		}
		c.Exactly("handshake-decodes", n, 2)
	})

	// -----------------------------------------------------------------------------------------
	c.Clause("C15.5", "message codes and ranges are validated before use: CheckCode heeded before a frame is queued, the dispatcher rejects unknown codes, a handler error ends the handler loop, From>To and StaHeight>CurHeight are rejected before any work is started")
	c.Run("code-and-range", func() {
		handle := c.Fn(p2p + ".Peer.handle")
		check := c.Method(p2p+".Msg", "CheckCode")
		calls := heeded(c, handle, check, core.IsFalse, 1, nil)
		// the queueing of the message is behind the check
		newMsgCh := c.FieldVar(p2p+".Peer", "newMsgCh")
		var sends []ssa.Instruction
		for _, b := range handle.Blocks {
			for _, in := range b.Instrs {
				switch x := in.(type) {
				case *ssa.Select:
					for _, st := range x.States {
						if st.Dir == types.SendOnly && core.SliceHasField(core.Slice(st.Chan), newMsgCh) {
							sends = append(sends, x)
						}
					}
				case *ssa.Send:
					if core.SliceHasField(core.Slice(x.Chan), newMsgCh) {
						sends = append(sends, x)
					}
				}
			}
		}
		c.Floor("Peer.handle/queue-sends", len(sends), 1)
		for _, s := range sends {
			ok := false
			for _, g := range calls {
				if k, _ := core.HeededBefore(g, core.IsFalse, s); k {
					ok = true
				}
			}
			c.Check("Peer.handle:CheckCode≺queue", "guarded-action", ok, s.Pos(), "a message is handed to the protocol layer only after CheckCode accepted its code")
		}
		// the checked message is the one built from the unpacked frame
		cc := c.Fn(p2p + ".Msg.CheckCode")
		code := c.FieldVar(p2p+".Msg", "Code")
		condGuard(c, cc, "Code>max", &bFalse, func(sl map[ssa.Value]bool) bool {
			return core.SliceHasField(sl, code) && (core.SliceHasOp(sl, token.GTR) || core.SliceHasOp(sl, token.GEQ))
		})
		// unpackFrame's error is heeded in handle, handle's and readConn's in readLoop
		heeded(c, handle, c.Method(p2p+".Peer", "unpackFrame"), core.ErrNonNil, 1, nil)
		heeded(c, c.Fn(p2p+".Peer.unpackFrame"), c.FuncObj("common/crypto.AesDecrypt"), core.ErrNonNil, 1, nil)
		loop := c.Fn(p2p + ".Peer.readLoop")
		for _, m := range []string{"readConn", "handle"} {
			tgt := c.Method(p2p+".Peer", m)
			for _, g := range core.CallsIn(loop, tgt) {
				ok := false
				for _, t := range core.TestsOf(core.ErrResult(g), core.ErrNonNil) {
					if !core.CanReach(t.Fail, g.Block()) {
						ok = true
					}
				}
				c.Check("readLoop:"+m+"-error-ends-loop", "guard-scope", ok, g.Pos(), "after an error of %s the read loop is left (the connection is dropped)", m)
			}
		}

		// the dispatcher: every exit either hands back a handler's result or is an error
		work := c.Fn("network.ProtocolManager.work")
		isHandler := map[*ssa.Function]bool{}
		for _, h := range handlers {
			isHandler[h] = true
		}
		// the case tests: `msg.Code == <constant>`; what is reached from the entry without taking any equal edge is the path of an unknown code
		okAll, nRet, nCase := true, 0, 0
		caseEntry := map[*ssa.BasicBlock]bool{}
		cut := map[[2]*ssa.BasicBlock]bool{}
		for _, b := range work.Blocks {
			ifi := ifOf(b)
			if ifi == nil {
				continue
			}
			bo, isB := ifi.Cond.(*ssa.BinOp)
			if !isB || bo.Op != token.EQL {
				continue
			}
			_, xc := bo.X.(*ssa.Const)
			_, yc := bo.Y.(*ssa.Const)
			if !xc && !yc {
				continue
			}
			nCase++
			caseEntry[b.Succs[0]] = true
			cut[[2]*ssa.BasicBlock{b, b.Succs[0]}] = true
		}
		unknown := core.ReachCutAvoid(work.Blocks[0], cut, nil)
		for _, r := range core.Returns(work) {
			if !unknown[r.Block()] {
				continue
			}
			nRet++
			if core.ClassifyReturn(r, nil, nil) != core.RetFailure {
				okAll = false
			}
		}
		c.Check("work:unknown-code-rejected", "dispatch-default", okAll && nRet >= 1 && nCase >= len(handlers)-len(c.InlinedPairs())-1, work.Pos(), "every exit of work that is reached without matching a message code is an error (%d such exit(s), %d code tests, %d handlers)", nRet, nCase, len(handlers))
		hm := c.Fn("network.ProtocolManager.handleMsg")
		for _, g := range core.CallsIn(hm, c.Method("network.ProtocolManager", "work")) {
			ok := false
			for _, t := range core.TestsOf(core.ErrResult(g), core.ErrNonNil) {
				if !core.CanReach(t.Fail, g.Block()) {
					ok = true
				}
			}
			c.Check("handleMsg:work-error-ends-loop", "guard-scope", ok, g.Pos(), "after a handler error handleMsg returns instead of handling further messages")
		}

		// ranges
		from, to := c.FieldVar("network.GetBlocksData", "From"), c.FieldVar("network.GetBlocksData", "To")
		resp := c.Method("network.ProtocolManager", "respBlocks")
		for _, spec := range []string{"handleGetBlocksMsg", "handleGetBlocksWithChangeLogMsg"} {
			fn := c.Fn("network.ProtocolManager." + spec)
			rangeGuard(c, fn, "From>To", resp, func(sl map[ssa.Value]bool) bool {
				return core.SliceHasField(sl, from) && core.SliceHasField(sl, to)
			})
		}
		sta, cur := c.FieldVar("network.LatestStatus", "StaHeight"), c.FieldVar("network.LatestStatus", "CurHeight")
		rangeGuard(c, c.Fn("network.ProtocolManager.handleLstStatusMsg"), "StaHeight>CurHeight", c.Method("network.ProtocolManager", "forceSyncBlock"), func(sl map[ssa.Value]bool) bool {
			return core.SliceHasField(sl, sta) && core.SliceHasField(sl, cur)
		})
	})

	// -----------------------------------------------------------------------------------------
	c.Clause("C15.6", "the explicit panic(...) sites and single-result type assertions reachable (VTA call graph, repository packages, not through common/log or metrics) from the frame reader, both encryption handshakes, the message handlers and the block/confirm insertion are exactly an inventoried set, each with the invariant that keeps it away from remote input")
	c.Run("inventory", func() {
		roots := []*ssa.Function{
			c.FnOrCaller(p2p + ".Peer.readLoop"), c.FnOrCaller(p2p + ".serverEncHandshake"), c.FnOrCaller(p2p + ".clientEncHandshake"),
			c.FnOrCaller("network.ProtocolManager.handlePeer"), c.FnOrCaller("network.ProtocolManager.handleMsg"), c.FnOrCaller("network.ProtocolManager.rcvBlockLoop"),
		}
		cl := cgClosure(c, roots, stop)
		netClosure = cl
		// positive controls: the closure really contains the code that handles remote data
		for _, spec := range []string{"chain/consensus.DPoVP.InsertBlock", "chain/consensus.DPoVP.InsertConfirms", "chain/transaction.TxProcessor.Process",
			"chain/txpool.TxPool.AddTx", p2p + ".Msg.Decode", "common/crypto.AesDecrypt", "common/crypto/ecies.PrivateKey.Decrypt", "common/rlp.Stream.Decode", "chain/vm.Interpreter.Run"} {
			fn := c.Fn(spec)
			_, in := cl[fn]
			c.Check("closure∋"+shortFn(fn), "closure-control", in, fn.Pos(), "%s is reachable from the network roots in the call graph", shortFn(fn))
		}
		type agg struct {
			n    int
			pos  token.Pos
			path string
		}
		found := map[string]*agg{}
		total := 0
		for _, fn := range sortedFns(cl) {
			for _, s := range crashSites(fn) {
				total++
				k := core.FuncName(fn) + "#" + s.Kind
				a := found[k]
				if a == nil {
					a = &agg{pos: s.Instr.Pos(), path: closurePath(cl, fn)}
					found[k] = a
				}
				a.n++
			}
		}
		var keys []string
		for k := range found {
			keys = append(keys, k)
		}
		sort.Strings(keys)
		// sites that moved inside their package (a helper was extracted, a function renamed) stay inside the package's budget for that
		// kind of site: budget = inventoried count of (package, kind) minus what the inventoried functions still contain
		pkgKind := func(k string) string {
			i := strings.Index(k, "#")
			fn, kind := k[:i], k[i:]
			fn = strings.TrimPrefix(fn, "(*")
			fn = strings.TrimPrefix(fn, "(")
			if j := strings.LastIndex(fn, "."); j >= 0 {
				fn = fn[:j]
			}
			if j := strings.LastIndex(fn, "."); j >= 0 && strings.Contains(fn[j:], ")") {
				fn = fn[:j]
			}
			fn = strings.TrimSuffix(fn, ")")
			// fn is now "pkg/path.Type" or "pkg/path": cut the type
			if j := strings.LastIndex(fn, "/"); j >= 0 {
				if d := strings.Index(fn[j:], "."); d >= 0 {
					fn = fn[:j+d]
				}
			} else if d := strings.Index(fn, "."); d >= 0 {
				fn = fn[:d]
			}
			return fn + kind
		}
		budget := map[string]int{}
		for k, e := range c15Inventory {
			budget[pkgKind(k)] += e.n
		}
		for k, a := range found {
			if e, ok := c15Inventory[k]; ok {
				use := a.n
				if use > e.n {
					use = e.n
				}
				budget[pkgKind(k)] -= use
			}
		}
		for _, k := range keys {
			a := found[k]
			e, listed := c15Inventory[k]
			switch {
			case !listed && budget[pkgKind(k)] >= a.n:
				budget[pkgKind(k)] -= a.n
				c.CheckTrivial("site/"+k, "crash-inventory", true, a.pos, "%d site(s) of a kind inventoried for this package under another function (moved inside the package; the package's count for this kind did not grow)", a.n)
			case !listed:
				c.Check("site/"+k, "crash-inventory", false, a.pos, "NEW crash site reachable from the network: %d × %s via %s — show the invariant that keeps remote input away from it and add it to the inventory, or remove it", a.n, k, a.path)
			case a.n > e.n && budget[pkgKind(k)] >= a.n-e.n:
				budget[pkgKind(k)] -= a.n - e.n
				c.CheckTrivial("site/"+k, "crash-inventory", true, a.pos, "%d site(s), %d inventoried here, the rest moved in from another function of the package", a.n, e.n)
			case a.n > e.n:
				c.Check("site/"+k, "crash-inventory", false, a.pos, "%d sites of this kind, %d inventoried: a NEW crash site in an inventoried function (via %s)", a.n, e.n, a.path)
			case strings.HasPrefix(e.why, "FINDING"):
				c.Check("site/"+k, "crash-inventory", false, a.pos, "%s", e.why)
			default:
				c.Check("site/"+k, "crash-inventory", true, a.pos, "%d site(s); unreachable from remote input because: %s", a.n, e.why)
			}
		}
		c.Floor("inventoried-crash-sites", total, 100)
		c.Note("C15.6: closure of %d functions, %d crash sites under %d keys", len(cl), total, len(keys))

		// D20: the unit assertion of GetCorrectMiner is behind the rejection of a mine time before the parent's
		gcm := c.Fn("chain/consensus.GetCorrectMiner")
		htime := c.FieldVar("chain/types.Header", "Time")
		var panics []ssa.Instruction
		for _, s := range crashSites(gcm) {
			panics = append(panics, s.Instr)
		}
		for i, p := range panics {
			ok := false
			for _, g := range core.CondGuards(gcm, nil) {
				if core.SliceHasField(g.Slice, htime) && g.Slice[gcm.Params[1]] && core.SliceHasOp(g.Slice, token.LSS) && g.GuardsAction(p) {
					ok = true
				}
			}
			c.Check(fmt.Sprintf("GetCorrectMiner:ErrSmallerMineTime≺panic#%d", i), "guarded-action", ok, p.Pos(), "the unit assertion is evaluated only for a mine time that is not before the parent's time (a received header with a tiny Time is rejected first)")
		}
	})

	// C15.4 (no self-deadlock) and C15.7 (connection maps locked) are decided by the lockset engine
	c15Locks(c)
	// C15.8 (pointers that may be nil because of what a peer sent)
	c15Nil(c)
	c15Div(c, netClosure)
	c15OpenDecode(c)

	c.Clause("C15.12", "no transaction from the network has an unset *big.Int field: txdata.UnmarshalJSON refuses a JSON object that lacks gasPrice or amount (box sub transactions are JSON; GasPrice() and Amount() dereference untested)")
	c.Run("big-fields-never-nil", func() { c15BigFieldsNeverNil(c) })

	c.Clause("C15.13", "a request's numbers size no allocation: every make in package network has a constant size or one computed from lengths of values already in memory")
	c.Run("allocations-not-sized-by-peer", func() { c15AllocationsNotSizedByPeer(c) })

	c.Clause("C15.11", "no lock of the network layer is kept: a mutex field a function locks is unlocked (or its unlock deferred) before every return and before its loop comes round again")
	c.Run("locks-released", func() { c15LocksReleased(c) })

	c.NotDecidedf("bounds and nil checks the rules above do not prove: slicing with variable bounds (e.g. ecies.Decrypt's c[:rLen], the rlp decoder's internal buffers), indexing, nil dereference of decoded pointers, integer division by zero, nil-map writes")
	c.NotDecidedf("CPU exhaustion (e.g. respBlocks over a 4-billion range), memory held by many small well-formed messages, goroutine leaks")
	c.NotDecidedf("deadlocks other than lock re-entry (waiting on channels, lock-order inversions across packages outside C19's scope)")
	c.NotDecidedf("that the invariants cited in the crash-site inventory hold (they are checked by the rules of C02/C05/C07 where cited, otherwise stated and trusted); reachability is over-approximated by the VTA call graph")
}

// rangeGuard: fn contains a rejecting comparison computed from the stated fields that every successful exit depends on and that
// stands before the `go` statement / call that starts the work.
func rangeGuard(c *core.Ctx, fn *ssa.Function, name string, action *types.Func, pred func(sl map[ssa.Value]bool) bool) {
	condGuard(c, fn, name, nil, pred)
	var acts []ssa.Instruction
	for _, ci := range core.CallsIn(fn, action) {
		acts = append(acts, ci)
	}
	if len(acts) == 0 {
		c.Check(shortFn(fn)+"?"+name+"≺"+objName(action), "guarded-action", false, fn.Pos(), "%s does not start %s", shortFn(fn), objName(action))
		return
	}
	for _, a := range acts {
		ok := false
		for _, g := range core.CondGuards(fn, nil) {
			if pred(g.Slice) && g.GuardsAction(a) {
				ok = true
			}
		}
		c.Check(shortFn(fn)+"?"+name+"≺"+objName(action), "guarded-action", ok, a.Pos(), "%s is started only after %s was rejected", objName(action), name)
	}
}

type c15Entry struct {
	n   int    // number of sites of this kind in the function
	why string // the invariant that keeps remote input away; "FINDING…" marks a recorded defect
}
