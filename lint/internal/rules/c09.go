package rules

import (
	"go/constant"
	"go/token"
	"go/types"
	"sort"
	"strings"

	"golang.org/x/tools/go/ssa"

	"verif/lint/internal/core"
)

func init() { register("C09", c09) }

func c09(c *core.Ctx) {
	const st = "store"
	F := func(spec string) string { return st + "." + spec }

	// -----------------------------------------------------------------------------------------
	c.Clause("C09.1c", "colour follows content: when put or the in-place insert move an existing node's account into a newly made node, the new node keeps that node's dye, so that Collect(height) still finds what the block wrote")
	c.Run("colour-follows-content", func() {
		dyeF, dataF, keyF := c.FieldVar(F("PatriciaNode"), "dye"), c.FieldVar(F("PatriciaNode"), "data"), c.FieldVar(F("PatriciaNode"), "key")
		total := 0
		for _, spec := range []string{F("PatriciaTrie.put"), F("PatriciaTrie.insert")} {
			fn := c.Fn(spec)
			var keyParam *ssa.Parameter
			for _, p := range fn.Params {
				if b, ok := p.Type().Underlying().(*types.Basic); ok && b.Kind() == types.String {
					keyParam = p
				}
			}
			moved := 0
			for _, b := range fn.Blocks {
				for _, in := range b.Instrs {
					al, ok := in.(*ssa.Alloc)
					if !ok || !al.Heap || namedPtr(al.Type()) != "PatriciaNode" || al.Referrers() == nil {
						continue
					}
					var dataVal, dyeVal ssa.Value
					for _, r := range *al.Referrers() {
						fa, isFA := r.(*ssa.FieldAddr)
						if !isFA || fa.Referrers() == nil {
							continue
						}
						for _, u := range *fa.Referrers() {
							if st, isSt := u.(*ssa.Store); isSt && st.Addr == fa {
								switch core.FieldOf(fa) {
								case dataF:
									dataVal = st.Val
								case dyeF:
									dyeVal = st.Val
								}
							}
						}
					}
					// content moved from an existing node X: data = X.data
					ld, isLd := dataVal.(*ssa.UnOp)
					if !isLd {
						continue
					}
					src, isFA := ld.X.(*ssa.FieldAddr)
					if !isFA || core.FieldOf(src) != dataF {
						continue
					}
					moved++
					total++
					okDye := false
					if dl, isDl := dyeVal.(*ssa.UnOp); isDl {
						if dfa, isD := dl.X.(*ssa.FieldAddr); isD && core.FieldOf(dfa) == dyeF && dfa.X == src.X {
							okDye = true
						}
					}
					name := shortFn(fn)
					if keyParam != nil {
						if mask, _ := lenSigns(b, keyParam, keyF); mask == 1 {
							c.CheckTrivial(name+"[prefix-branch]:moved-node-dye", "unreachable-shape", true, al.Pos(), "allow-listed: only reachable when len(key) < len(child.key), impossible while all keys of one trie have the same length (see fixed-length-keys)")
							continue
						}
					}
					c.Check(name+":moved-node-keeps-dye#"+string(rune('a'+moved-1)), "cow-ownership", okDye, al.Pos(), "a node made to carry an existing node's account must be coloured with that node's dye (found: %v)", dyeVal)
				}
			}
		}
		c.Floor("moved-content-literals", total, 4)
	})

	// -----------------------------------------------------------------------------------------
	c.Clause("C09.1", "copy-on-write in PatriciaTrie.put: every write to memory of a node this activation did not allocate (a field, an element of its children array, "+
		"an append/insert on that array, handing the node to a foreign callee) is dominated by the test node.dye == dye on that very node; "+
		"a fresh node never shares a foreign node's children array; one branch is unreachable because all keys of a trie have one length")
	c.Run("put", func() { c09PutCOW(c) })

	c.Run("fixed-length-keys", func() {
		// support for the allow-listed branch: every key that reaches a trie is Address.Hex() (42 characters), with a constant prefix in the candidate trie
		hex := c.Method("common.Address", "Hex")
		// fromHex: the value is computed from Address.Hex(), directly or through a resolved repository helper all of whose returns are
		var fromHex func(v ssa.Value, depth int) bool
		fromHex = func(v ssa.Value, depth int) bool {
			sl := core.Slice(v)
			if core.SliceHasCall(sl, hex) {
				return true
			}
			if depth > 1 {
				return false
			}
			for x := range sl {
				call, isCall := x.(*ssa.Call)
				if !isCall || call.Call.IsInvoke() || call.Call.StaticCallee() == nil || !core.InRepo(call.Call.StaticCallee()) || call.Call.StaticCallee().Blocks == nil {
					continue
				}
				rets := core.Returns(call.Call.StaticCallee())
				all := len(rets) > 0
				for _, r := range rets {
					if len(r.Results) != 1 || !fromHex(r.Results[0], depth+1) {
						all = false
					}
				}
				if all {
					return true
				}
			}
			return false
		}
		ckeyFn := c.Fn(F("CandidateTrieDB.key"))
		okKeyFn := true
		for _, r := range core.Returns(ckeyFn) {
			if !fromHex(r.Results[0], 1) {
				okKeyFn = false
			}
		}
		c.Check("CandidateTrieDB.key:from-Address.Hex", "value-flow", okKeyFn, ckeyFn.Pos(), "candidate keys are a constant prefix plus Address.Hex()")
		n := 0
		for _, e := range []struct{ fn, callee string }{
			{"AccountTrieDB.Put", "Put"}, {"AccountTrieDB.Set", "Insert"}, {"AccountTrieDB.Get", "insert"}, {"CandidateTrieDB.Put", "Put"}, {"CandidateTrieDB.Set", "Insert"},
		} {
			fn := c.Fn(F(e.fn))
			target := c.Method(F("PatriciaTrie"), e.callee)
			sig := target.Type().(*types.Signature)
			ki := -1
			for i := 0; i < sig.Params().Len(); i++ {
				if b, isB := sig.Params().At(i).Type().Underlying().(*types.Basic); isB && b.Kind() == types.String {
					ki = i + 1 // receiver first
				}
			}
			for _, ci := range core.CallsIn(fn, target) {
				args := ci.Common().Args
				ok := fromHex(args[ki], 0)
				if c.Check(e.fn+":key-is-Address.Hex", "value-flow", ki > 0 && ok, ci.Pos(), "the key handed to PatriciaTrie.%s derives from Address.Hex()", e.callee) {
					n++
				}
			}
		}
		c.Floor("fixed-length-keys/entry-points", n, 5)
	})

	// -----------------------------------------------------------------------------------------
	c.Clause("C09.2", "a block's view is created by cloning its parent's three structures: NewNormalBlock is the only constructor of a non-genesis CBlock, it Clone()s all three, "+
		"the clones own their trie header / top list, PatriciaNode.Clone copies the children slice element by element, SetBlock hands in the parent's structures")
	c.Run("views", func() {
		cb := c.Named(F("CBlock"))
		allowed := map[string]bool{"store.NewGenesisBlock": true, "store.NewNormalBlock": true}
		n := 0
		for _, fn := range c.SrcFuncs {
			if isTestHelper(c, fn) {
				continue
			}
			for _, b := range fn.Blocks {
				for _, in := range b.Instrs {
					if al, ok := in.(*ssa.Alloc); ok && types.Identical(al.Type().Underlying().(*types.Pointer).Elem(), cb) {
						n++
						name := core.FuncName(core.Outer(fn))
						c.Check("CBlock-allocated@"+name, "who-may-construct", allowed[name], al.Pos(), "a CBlock may only be allocated by NewGenesisBlock / NewNormalBlock")
					}
				}
			}
		}
		c.Floor("CBlock/allocation-sites", n, 2)
		closedCallers(c, "NewNormalBlock", []string{"(*store.ChainDatabase).SetBlock"}, c.FuncObj(F("NewNormalBlock")))
		closedCallers(c, "NewGenesisBlock", []string{"store.NewChainDataBase", "(*store.ChainDatabase).SetBlock"}, c.FuncObj(F("NewGenesisBlock")))

		// inside SetBlock the genesis constructor is only used for a block without parent
		setBlock := c.Fn(F("ChainDatabase.SetBlock"))
		parentHash := c.Method("chain/types.Block", "ParentHash")
		for _, ci := range core.CallsIn(setBlock, c.FuncObj(F("NewGenesisBlock"))) {
			ok := false
			for _, e := range core.DominatingEdges(ci.Block()) {
				cmp, isB := e.If.Cond.(*ssa.BinOp)
				if isB && core.SliceHasCall(core.Slice(cmp), parentHash) && ((cmp.Op == token.EQL && e.Taken) || (cmp.Op == token.NEQ && !e.Taken)) {
					ok = true
				}
			}
			c.Check("SetBlock:NewGenesisBlock-only-without-parent", "guard-scope", ok, ci.Pos(), "NewGenesisBlock in SetBlock is control-dependent on the ParentHash()==zero test")
		}

		// NewNormalBlock clones all three
		nnb := c.Fn(F("NewNormalBlock"))
		objs, okB := builtObjects(nnb, 0)
		if !okB || len(objs) != 1 {
			c.Check("NewNormalBlock:allocates", "fresh-copy", false, nnb.Pos(), "NewNormalBlock must return a CBlock it allocates")
		} else {
			for _, e := range []struct{ field, typ string }{{"AccountTrieDB", "AccountTrieDB"}, {"CandidateTrieDB", "CandidateTrieDB"}, {"Top", "VoteTop"}} {
				f := c.FieldVar(F("CBlock"), e.field)
				clone := c.Method(F(e.typ), "Clone")
				sts := storesToField(objs[0].Fn, objs[0].Alloc, f)
				ok := len(sts) >= 1
				for _, s := range sts {
					call, isCall := s.Val.(*ssa.Call)
					if !isCall || core.CalleeObj(call) != clone {
						ok = false
						continue
					}
					if _, isParam := call.Call.Args[0].(*ssa.Parameter); !isParam {
						ok = false
					}
				}
				c.Check("NewNormalBlock:"+e.field+"=parent."+e.field+".Clone()", "fresh-copy", ok, nnb.Pos(), "the new view's %s must be a Clone() of the structure handed in", e.field)
			}
		}
		// the clones own what the child will write
		cloneFieldFresh(c, c.Fn(F("AccountTrieDB.Clone")), c.FieldVar(F("AccountTrieDB"), "trie"))
		cloneFieldFresh(c, c.Fn(F("CandidateTrieDB.Clone")), c.FieldVar(F("CandidateTrieDB"), "trie"))
		cloneFieldFresh(c, c.Fn(F("VoteTop.Clone")), c.FieldVar(F("VoteTop"), "Top"))
		cloneFieldFresh(c, c.Fn(F("PatriciaNode.Clone")), c.FieldVar(F("PatriciaNode"), "children"))
		// the copied trie header starts at the parent's root
		rootF := c.FieldVar(F("PatriciaTrie"), "root")
		for _, spec := range []string{"NewActDatabase", "PatriciaTrie.Clone"} {
			fn := c.Fn(F(spec))
			objs, okB := builtObjects(fn, 0)
			ok := okB && len(objs) == 1
			if ok {
				sts := storesToField(fn, objs[0].Alloc, rootF)
				ok = len(sts) == 1
				if ok {
					b, f, isLd := core.FieldLoad(sts[0].Val)
					ok = isLd && f == rootF && b == fn.Params[0]
				}
			}
			c.Check(shortFn(fn)+":root=source.root", "value-flow", ok, fn.Pos(), "the copied trie header must point at the source's root (the view starts from the parent's state)")
		}
		// PatriciaNode.Clone copies every child pointer to the same index
		cl := c.Fn(F("PatriciaNode.Clone"))
		kids := c.FieldVar(F("PatriciaNode"), "children")
		objsC, _ := builtObjects(cl, 0)
		isDst := func(v ssa.Value) bool {
			b, f, isLd := core.FieldLoad(v)
			if !isLd || f != kids {
				_, isMk := v.(*ssa.MakeSlice)
				return isMk
			}
			for _, o := range objsC {
				if b == o.Alloc {
					return true
				}
			}
			return false
		}
		isSrc := func(v ssa.Value) bool {
			b, f, isLd := core.FieldLoad(v)
			return isLd && f == kids && b == cl.Params[0]
		}
		hasCopy := false
		for _, ci := range core.AllCalls(cl) {
			if core.BuiltinName(ci) == "copy" && isDst(ci.Common().Args[0]) && isSrc(ci.Common().Args[1]) {
				hasCopy = true
			}
		}
		if hasCopy {
			c.Check("Clone:children-copied", "index-fill", true, cl.Pos(), "children copied with copy(dst, src)")
		} else {
			indexFill(c, "Clone:children-copied", cl, isDst, isSrc, nil, "PatriciaNode.Clone")
		}

		// SetBlock clones from the parent it looked up by the block's ParentHash (or the stable block when that is the parent)
		unconf := c.FieldVar(F("ChainDatabase"), "UnConfirmBlocks")
		phField := c.FieldVar("chain/types.Header", "ParentHash")
		for _, ci := range core.CallsIn(setBlock, c.FuncObj(F("NewNormalBlock"))) {
			args := ci.Common().Args
			ok := len(args) == 4
			var parent ssa.Value
			if ok {
				for i, fname := range []string{"AccountTrieDB", "CandidateTrieDB", "Top"} {
					b, f, isLd := core.FieldLoad(args[i+1])
					if !isLd || f != c.FieldVar(F("CBlock"), fname) {
						ok = false
						break
					}
					if parent == nil {
						parent = b
					} else if parent != b {
						ok = false
					}
				}
			}
			byParentHash := false
			if ok && parent != nil {
				for v := range core.Slice(parent) {
					if lk, isLk := v.(*ssa.Lookup); isLk {
						if _, f, isLd := core.FieldLoad(lk.X); isLd && f == unconf && (core.SliceHasField(core.Slice(lk.Index), phField) || core.SliceHasCall(core.Slice(lk.Index), parentHash)) {
							byParentHash = true
						}
					}
				}
			}
			c.Check("SetBlock:NewNormalBlock(parent's three structures)", "value-flow", ok && byParentHash, ci.Pos(),
				"the three structures cloned for a new block all belong to one CBlock, looked up in UnConfirmBlocks by the block's ParentHash")
			// the stable block may only stand in as parent when its hash is the block's parent hash
			lastConfirm := c.FieldVar(F("ChainDatabase"), "LastConfirm")
			nStable, okStable := 0, true
			if parent != nil {
				for _, src := range phiSources(parent) {
					_, f, isLd := core.FieldLoad(src)
					if !isLd || f != lastConfirm {
						continue
					}
					nStable++
					g := false
					for _, cg := range core.CondGuards(setBlock, nil) {
						if core.SliceHasField(cg.Slice, lastConfirm) && (core.SliceHasField(cg.Slice, phField) || core.SliceHasCall(cg.Slice, parentHash)) &&
							core.SliceHasCall(cg.Slice, c.Method("chain/types.Header", "Hash")) && core.OnlyVia(cg.If.Block(), cg.OK, src.(ssa.Instruction).Block()) {
							g = true
						}
					}
					if !g {
						okStable = false
					}
				}
			}
			c.Check("SetBlock?LastConfirm.Hash≠ParentHash", "quantity-guard", okStable && nStable <= 1, ci.Pos(), "the stable block stands in as parent only on the accepting edge of the test LastConfirm's hash == block's ParentHash (%d such source)", nStable)
		}
		c.Exactly("SetBlock/NewNormalBlock-calls", len(core.CallsIn(setBlock, c.FuncObj(F("NewNormalBlock")))), 1)
	})

	// -----------------------------------------------------------------------------------------
	c.Clause("C09.3", "the non-copying PatriciaTrie.insert/Insert is reachable only from read-through caching of the stored value (AccountTrieDB.Get miss branch) and the start-up loaders")
	c.Run("non-cow-insert", func() {
		pt := F("PatriciaTrie")
		closedCallers(c, "PatriciaTrie.insert", []string{"(*store.PatriciaTrie).Insert", "(*store.PatriciaTrie).insert", "(*store.AccountTrieDB).Get"}, c.Method(pt, "insert"))
		closedCallers(c, "PatriciaTrie.Insert", []string{"(*store.AccountTrieDB).Set", "(*store.CandidateTrieDB).Set"}, c.Method(pt, "Insert"))
		closedCallers(c, "AccountTrieDB.Set", []string{}, c.Method(F("AccountTrieDB"), "Set"))
		closedCallers(c, "CandidateTrieDB.Set", []string{"store.NewChainDataBase"}, c.Method(F("CandidateTrieDB"), "Set"))
		closedCallers(c, "PatriciaTrie.put", []string{"(*store.PatriciaTrie).Put", "(*store.PatriciaTrie).put"}, c.Method(pt, "put"))
		closedCallers(c, "PatriciaTrie.Put", []string{"(*store.AccountTrieDB).Put", "(*store.CandidateTrieDB).Put"}, c.Method(pt, "Put"))
		// positive control for the zero-expected rule
		c.Floor("non-cow-insert/callers-of-insert", len(c.CallSites(c.Method(pt, "insert"))), 3)

		get := c.Fn(F("AccountTrieDB.Get"))
		ins := core.CallsIn(get, c.Method(pt, "insert"))
		uga := c.FuncObj(F("UtilsGetAccount"))
		find := c.Method(pt, "Find")
		for _, ci := range ins {
			args := ci.Common().Args
			loads := core.CallsIn(get, uga)
			fromDisk := false
			if len(loads) == 1 {
				if res := core.ResultValues(loads[0])[0]; res != nil && core.Slice(args[len(args)-1])[res] {
					fromDisk = true
				}
			}
			c.Check("Get:insert(value read from disk)", "value-flow", fromDisk, ci.Pos(), "the value cached in place derives from what UtilsGetAccount read from disk")
			heededBefore(c, get, uga, core.ErrNonNil, "insert", []ssa.Instruction{ci})
			miss := false
			for _, f := range core.CallsIn(get, find) {
				for _, t := range core.TestsOf(f.Value(), core.IsNil) {
					if core.OnlyVia(t.If.Block(), t.Fail, ci.Block()) {
						miss = true
					}
				}
			}
			c.Check("Get:insert-only-on-miss", "guard-scope", miss, ci.Pos(), "the in-place insert happens only when Find returned nil")
		}
		c.Exactly("Get/insert-calls", len(ins), 1)
	})

	// -----------------------------------------------------------------------------------------
	c.Clause("C09.4", "pruning: SetStableBlock commits a block (heeded) before it becomes LastConfirm and only then clears; clear deletes from UnConfirmBlocks exactly the blocks "+
		"Walk(old root, exclude = new root) visits plus the new root; Walk skips exactly the excluded subtree; UnConfirmBlocks is written by SetBlock (insert) and clear (delete) only")
	c.Run("prune", func() {
		ssb := c.Fn(F("ChainDatabase.SetStableBlock"))
		unconf := c.FieldVar(F("ChainDatabase"), "UnConfirmBlocks")
		lastConfirm := c.FieldVar(F("ChainDatabase"), "LastConfirm")
		blockCommit := c.Method(F("ChainDatabase"), "blockCommit")
		blockHash := c.Method("chain/types.Block", "Hash")
		walk := c.Method(F("CBlock"), "Walk")

		// writers of UnConfirmBlocks
		allowedW := map[string]string{
			"(*store.ChainDatabase).SetBlock":       "update",
			"(*store.ChainDatabase).SetStableBlock": "delete",
			"store.NewChainDataBase":                "assign",
		}
		cnt := map[string]int{}
		var fns []*ssa.Function
		for _, fn := range c.SrcFuncs {
			if !isTestHelper(c, fn) {
				fns = append(fns, fn)
			}
		}
		for _, u := range core.MapFieldWrites(fns, unconf) {
			name := core.FuncName(core.Outer(u.Fn))
			cnt[u.Kind]++
			c.Check("UnConfirmBlocks:"+u.Kind+"@"+name, "who-may-write", allowedW[name] == u.Kind, u.Instr.Pos(), "UnConfirmBlocks may be inserted into by SetBlock, deleted from by SetStableBlock's clear, created by NewChainDataBase — nothing else (found %s in %s)", u.Kind, name)
		}
		c.Floor("UnConfirmBlocks/inserts", cnt["update"], 1)
		c.Floor("UnConfirmBlocks/deletes", cnt["delete"], 2)
		c.Exactly("UnConfirmBlocks/escapes", cnt["escape"], 0)

		// the function of the family that commits, and the one that prunes
		isDelete := func(in ssa.Instruction) bool {
			ci, ok := in.(ssa.CallInstruction)
			if !ok || core.BuiltinName(ci) != "delete" {
				return false
			}
			_, f, isLd := core.FieldLoad(ci.Common().Args[0])
			return isLd && f == unconf
		}
		hasDelete := func(fn *ssa.Function) bool {
			for _, b := range fn.Blocks {
				for _, in := range b.Instrs {
					if isDelete(in) {
						return true
					}
				}
			}
			return false
		}
		commitFns := familyFuncWith(ssb, func(f *ssa.Function) bool { return len(core.CallsIn(f, blockCommit)) > 0 })
		clearFns := familyFuncWith(ssb, hasDelete)
		if len(commitFns) != 1 || len(clearFns) != 1 {
			c.Undecided("SetStableBlock:shape", "order", ssb.Pos(), "expected one function of SetStableBlock's family calling blockCommit and one deleting from UnConfirmBlocks (%d/%d)", len(commitFns), len(clearFns))
			return
		}
		cf, clr := commitFns[0], clearFns[0]
		commits := core.CallsIn(cf, blockCommit)
		c.Exactly("SetStableBlock/blockCommit-calls", len(commits), 1)
		g := commits[0]
		// the LastConfirm assignment
		var assign []*ssa.Store
		for _, b := range cf.Blocks {
			for _, in := range b.Instrs {
				if s, ok := in.(*ssa.Store); ok && core.FieldOf(s.Addr) == lastConfirm {
					assign = append(assign, s)
				}
			}
		}
		c.Exactly("SetStableBlock/LastConfirm-assignments", len(assign), 1)
		if len(assign) != 1 {
			return
		}
		as := assign[0]
		okH, why := core.HeededBefore(g, core.ErrNonNil, as)
		c.Check("SetStableBlock:blockCommit≺LastConfirm=", "guarded-action", okH, as.Pos(), "a block becomes LastConfirm only after blockCommit accepted it: %s", orOK(why))
		// prune actions in the committing function: the deletes themselves or calls of the clearing closure
		var prunes []ssa.Instruction
		if clr == cf {
			for _, b := range cf.Blocks {
				for _, in := range b.Instrs {
					if isDelete(in) {
						prunes = append(prunes, in)
					}
				}
			}
		} else {
			for _, ci := range callsResolvingTo(cf, clr) {
				prunes = append(prunes, ci)
			}
		}
		c.Floor("SetStableBlock/prune-actions", len(prunes), 1)
		for i, p := range prunes {
			c.Check("SetStableBlock:LastConfirm=≺clear"+suffix(i, len(prunes)), "order", core.Dominates(as, p), p.Pos(), "the unconfirmed tree is pruned only after the committed block became LastConfirm")
			okP, whyP := core.HeededBefore(g, core.ErrNonNil, p)
			c.Check("SetStableBlock:blockCommit≺clear"+suffix(i, len(prunes)), "guarded-action", okP, p.Pos(), "nothing is pruned unless blockCommit accepted: %s", orOK(whyP))
		}
		// identities: the committed hash, the new LastConfirm and clear's new root are one CBlock; clear's old root is the previous LastConfirm
		item := as.Val
		hashArg := g.Common().Args[len(g.Common().Args)-1]
		sl := core.Slice(hashArg)
		c.Check("SetStableBlock:blockCommit(item.Block.Hash())", "value-flow", sl[item] && core.SliceHasCall(sl, blockHash) && core.SliceHasField(sl, c.FieldVar(F("CBlock"), "Block")), g.Pos(),
			"the hash committed is the hash of the block that becomes LastConfirm")
		if clr != cf {
			for i, p := range prunes {
				args := p.(ssa.CallInstruction).Common().Args
				ok := len(args) == 2 && core.Derived(item)[args[1]]
				if ok {
					b, f, isLd := core.FieldLoad(args[0])
					ld, _ := args[0].(ssa.Instruction)
					ok = isLd && f == lastConfirm && b != nil && ld != nil && core.Dominates(ld, as)
					if ok {
						// read in the same iteration as the assignment: a value read before the loop is the previous root only in the first step
						_, hl := core.LoopOf(ld.Block())
						_, hp := core.LoopOf(p.Block())
						ok = hl == hp
					}
				}
				c.Check("SetStableBlock:clear(previous LastConfirm, item)"+suffix(i, len(prunes)), "value-flow", ok, p.Pos(), "clear receives the previous LastConfirm (read before the assignment, in the same iteration of the commit loop) as old root and the committed block as new root")
			}
		}

		// inside clear (a closure taking (oldRoot, newRoot), or — when the clearing code sits in the committing function itself — the
		// receiver and the excluded node of its Walk call)
		var oldRoot, newRoot ssa.Value
		if len(clr.Params) == 2 && clr != cf {
			oldRoot, newRoot = clr.Params[0], clr.Params[1]
		} else if clr == cf {
			if ws0 := core.CallsIn(clr, walk); len(ws0) == 1 && len(ws0[0].Common().Args) == 3 {
				oldRoot, newRoot = ws0[0].Common().Args[0], ws0[0].Common().Args[2]
				// the identities the closure form checks at its call site
				okIds := core.Derived(item)[newRoot] || newRoot == item
				if okIds {
					okIds = false
					for v := range core.SliceShallow(oldRoot) {
						b, f, isLd := core.FieldLoad(v)
						ld, _ := v.(ssa.Instruction)
						if isLd && f == lastConfirm && b != nil && ld != nil && core.Dominates(ld, as) {
							_, hl := core.LoopOf(ld.Block())
							_, hp := core.LoopOf(ws0[0].Block())
							if hl == hp {
								okIds = true
							}
						}
					}
				}
				c.Check("SetStableBlock:clear(previous LastConfirm, item)", "value-flow", okIds, ws0[0].Pos(), "the walk starts at the previous LastConfirm (read before the assignment, in the same iteration of the commit loop) and excludes the committed block")
			}
		}
		if oldRoot != nil && newRoot != nil {
			ws := core.CallsIn(clr, walk)
			c.Exactly("clear/Walk-calls", len(ws), 1)
			var listCell *ssa.Alloc
			if len(ws) == 1 {
				args := ws[0].Common().Args
				okW := len(args) == 3 && args[0] == oldRoot && args[2] == newRoot
				// the callback records every visited node in one local list
				if mc, isMC := args[1].(*ssa.MakeClosure); okW && isMC {
					cbFn := mc.Fn.(*ssa.Function)
					for _, b := range cbFn.Blocks {
						for _, in := range b.Instrs {
							s, isSt := in.(*ssa.Store)
							if !isSt {
								continue
							}
							cell := cellOfAddr(s.Addr, cbFn)
							if cell != nil && core.Slice(s.Val)[cbFn.Params[0]] {
								if ap, isCall := s.Val.(*ssa.Call); isCall && core.BuiltinName(ap) == "append" && core.CellOfS9(ap.Call.Args[0], cbFn) == cell {
									listCell = cell
								}
							}
						}
					}
				}
				c.Check("clear:Walk(oldRoot, collect, newRoot)", "value-flow", okW && listCell != nil, ws[0].Pos(), "clear walks the old root excluding the new root and appends every visited node to one list")
			}
			nLoop, nRoot := 0, 0
			for _, b := range clr.Blocks {
				for _, in := range b.Instrs {
					if !isDelete(in) {
						continue
					}
					key := in.(ssa.CallInstruction).Common().Args[1]
					ks := core.Slice(key)
					switch {
					case listCell != nil && ks[listCell] && core.SliceHasCall(ks, blockHash) && !ks[newRoot]:
						_, lh := core.LoopOf(in.Block())
						ok := lh != nil && core.EveryIterationOf(lh, in) && len(ws) == 1 && core.Dominates(ws[0], in)
						// the list ranged over is the complete list: read after Walk returned
						c.Check("clear:delete(every walked node)", "order", ok, in.Pos(), "after Walk, every collected node is deleted from UnConfirmBlocks by its block hash on every iteration")
						nLoop++
					case ks[newRoot] && core.SliceHasCall(ks, blockHash):
						_, h := core.LoopOf(in.Block())
						var hw *ssa.BasicBlock
						if len(ws) == 1 {
							_, hw = core.LoopOf(ws[0].Block())
						}
						// once per clearing: outside any loop of the clearing code (the commit loop itself, when the code is inlined there, is fine)
						c.Check("clear:delete(new root)", "value-flow", h == nil || (clr == cf && h == hw), in.Pos(), "the new root leaves UnConfirmBlocks (it is LastConfirm now)")
						nRoot++
					default:
						c.Check("clear:delete(other)", "who-may-write", false, in.Pos(), "a delete from UnConfirmBlocks whose key is neither a walked node's hash nor the new root's")
					}
				}
			}
			c.Exactly("clear/deletes-of-walked-nodes", nLoop, 1)
			c.Exactly("clear/deletes-of-new-root", nRoot, 1)
		} else {
			c.Undecided("clear:shape", "order", clr.Pos(), "the clearing function must take (oldRoot, newRoot)")
		}

		// Walk: visits every child except the excluded one, and descends
		wf := c.Fn(F("CBlock.Walk"))
		same := c.Method(F("CBlock"), "IsSameBlock")
		gs := core.CallsIn(wf, same)
		c.Exactly("Walk/IsSameBlock-calls", len(gs), 1)
		// what Walk excludes is one block: IsSameBlock answers true only by comparing the two blocks' hashes (two siblings of one miner for
		// one slot agree in height, parent, miner and time; excluding both leaves one of them, and what is built on it, unpruned)
		sfn := c.Fn(F("CBlock.IsSameBlock"))
		okSame, nRet := true, 0
		for _, r := range core.Returns(sfn) {
			if k, isC := r.Results[0].(*ssa.Const); isC && k.Value != nil {
				if !constant.BoolVal(k.Value) {
					continue
				}
				// `return true` on the equal edge of receiver == argument (one node is the same block as itself)
				self := false
				for _, t := range sfn.Blocks {
					ifi := ifOf(t)
					if ifi == nil {
						continue
					}
					bo, isB := ifi.Cond.(*ssa.BinOp)
					if isB && bo.Op == token.EQL && len(sfn.Params) == 2 && ((bo.X == ssa.Value(sfn.Params[0]) && bo.Y == ssa.Value(sfn.Params[1])) || (bo.X == ssa.Value(sfn.Params[1]) && bo.Y == ssa.Value(sfn.Params[0]))) &&
						t.Succs[0].Dominates(r.Block()) && len(t.Succs[0].Preds) == 1 {
						self = true
					}
				}
				if !self {
					okSame = false
				}
				continue
			}
			nRet++
			byHash := false
			for v := range core.Slice(r.Results[0]) {
				bo, isB := v.(*ssa.BinOp)
				if !isB || bo.Op != token.EQL {
					continue
				}
				_, xh := isCallOf(bo.X, blockHash)
				_, yh := isCallOf(bo.Y, blockHash)
				if xh && yh {
					byHash = true
				}
			}
			// nothing but the hash comparison (and nil tests) decides
			for v := range core.Slice(r.Results[0]) {
				if bo, isB := v.(*ssa.BinOp); isB && (bo.Op == token.EQL || bo.Op == token.NEQ) {
					_, xh := isCallOf(bo.X, blockHash)
					if !xh && !core.IsNilConst(bo.X) && !core.IsNilConst(bo.Y) {
						byHash = false
					}
				}
			}
			if !byHash {
				okSame = false
			}
		}
		c.Check("IsSameBlock:by-hash", "value-flow", okSame && nRet >= 1, sfn.Pos(), "two tree nodes are the same block exactly when their block hashes are equal")
		if len(gs) == 1 && len(wf.Params) == 3 {
			gcall := gs[0]
			recv, cb, excl := wf.Params[0], wf.Params[1], wf.Params[2]
			child := gcall.Common().Args[0]
			var acts []ssa.CallInstruction
			okVals := len(gcall.Common().Args) == 2 && gcall.Common().Args[1] == excl
			for _, ci := range core.AllCalls(wf) {
				cc := ci.Common()
				switch {
				case cc.Value == cb:
					acts = append(acts, ci)
					if len(cc.Args) != 1 || cc.Args[0] != child {
						okVals = false
					}
				case core.CalleeObj(ci) == walk:
					acts = append(acts, ci)
					if len(cc.Args) != 3 || cc.Args[0] != child || cc.Args[1] != cb || cc.Args[2] != excl {
						okVals = false
					}
				}
			}
			// the child is an element of the receiver's Children, and the loop covers all of them
			s, idx, isEl := elemLoadS9(child)
			okLoop := false
			if isEl {
				b, f, isLd := core.FieldLoad(s)
				if il, okIL := core.FullIndexLoop(idx); okIL && isLd && f == c.FieldVar(F("CBlock"), "Children") && b == recv {
					if bs, isLen := core.LenArg(il.Bound); isLen && core.SameLoc(bs, s) {
						okLoop = true
					}
				}
			}
			c.Check("Walk:visits(child), Walk(child, fn, exclude)", "value-flow", okVals && len(acts) == 2, wf.Pos(), "the callback and the recursion receive the child that was compared with exclude; fn and exclude are passed on unchanged")
			c.Check("Walk:loop-covers-all-children", "index-fill", okLoop, wf.Pos(), "the loop runs over every element of block.Children with no early exit")
			// the nil test on exclude
			var nilEdge *core.CondEdge
			for _, t := range core.TestsOf(excl, core.IsNil) {
				e := core.CondEdge{If: t.If, Taken: t.Fail == t.If.Block().Succs[0]}
				nilEdge = &e
			}
			for i, act := range acts {
				name := "callback"
				if core.CalleeObj(act) == walk {
					name = "descent"
				}
				_ = i
				// (a) not reachable without the comparison, except through exclude == nil
				cutNil := map[*ssa.BasicBlock]bool{gcall.Block(): true}
				reachable := reachFromEntryCut(wf, cutNil, nilEdge)[act.Block()]
				// (b) the same-block outcome does not reach it before the next comparison
				okSame := false
				for _, t := range core.TestsOf(gcall.Value(), core.IsTrue) {
					r := reachFromCut(t.Fail, cutNil, nilEdge)
					if t.Fail != t.OK && !r[act.Block()] {
						okSame = true
					}
					// (c) the different-block outcome always reaches it within the iteration
					if _, h := core.LoopOf(gcall.Block()); h != nil && t.OK != act.Block() {
						if core.ReachAvoiding(t.OK, h, map[*ssa.BasicBlock]bool{act.Block(): true}) {
							okSame = false
						}
					}
				}
				c.Check("Walk:"+name+"-skips-exactly-the-excluded-child", "guard-scope", !reachable && okSame, act.Pos(),
					"the %s runs for a child iff exclude is nil or the child is not the excluded block", name)
			}
		}
	})

	// -----------------------------------------------------------------------------------------
	c.Clause("C09.5", "persistence collects exactly the committing block's writes: PatriciaTrie.collected descends and appends only under curNode.dye == dye and appends only terminal nodes with data; "+
		"every node put allocates on the write path carries the requested dye before it is published; blockCommit persists Collect(own height) of the committed block's own trie")
	c.Run("collected", func() {
		a := &cow{node: c.Named(F("PatriciaNode")), tag: c.FieldVar(F("PatriciaNode"), "dye"), kids: c.FieldVar(F("PatriciaNode"), "children"),
			fresh: []*types.Func{c.Method(F("PatriciaNode"), "Clone")}}
		col := c.Fn(F("PatriciaTrie.collected"))
		colObj := c.Method(F("PatriciaTrie"), "collected")
		tag := a.tagParam(col)
		var nodeP *ssa.Parameter
		for _, p := range col.Params {
			if a.isNodePtr(p.Type()) {
				nodeP = p
			}
		}
		if tag == nil || nodeP == nil {
			c.Undecided("collected:shape", "cow-ownership", col.Pos(), "collected must take the node and the dye")
			return
		}
		dataF, termF := c.FieldVar(F("PatriciaNode"), "data"), c.FieldVar(F("PatriciaNode"), "terminal")
		rec := core.CallsIn(col, colObj)
		c.Floor("collected/recursive-calls", len(rec), 1)
		for i, ci := range rec {
			args := ci.Common().Args
			okArgs := false
			for _, x := range args {
				if x == tag {
					okArgs = true
				}
			}
			c.Check("collected:descent-under-dye-equality"+suffix(i, len(rec)), "guard-scope", a.ownedAt(ci.Block(), nodeP, tag) && okArgs, ci.Pos(), "the recursive descent is control-dependent on curNode.dye == dye and passes the dye on")
		}
		nApp := 0
		for _, ci := range core.AllCalls(col) {
			if core.BuiltinName(ci) != "append" {
				continue
			}
			sl := core.Slice(ci.Common().Args[1])
			if !core.SliceHasField(sl, dataF) {
				continue
			}
			nApp++
			okData, okTerm := false, false
			for _, e := range core.DominatingEdges(ci.Block()) {
				if b, f, isLd := core.FieldLoad(e.If.Cond); isLd && f == termF && b == nodeP && e.Taken {
					okTerm = true
				}
				if cmp, isB := e.If.Cond.(*ssa.BinOp); isB {
					for _, p := range [][2]ssa.Value{{cmp.X, cmp.Y}, {cmp.Y, cmp.X}} {
						if b, f, isLd := core.FieldLoad(p[0]); isLd && f == dataF && b == nodeP && core.IsNilConst(p[1]) {
							if (cmp.Op == token.NEQ) == e.Taken {
								okData = true
							}
						}
					}
				}
			}
			c.Check("collected:append-under-dye-equality", "guard-scope", a.ownedAt(ci.Block(), nodeP, tag), ci.Pos(), "a node's data is collected only when curNode.dye == dye")
			c.Check("collected:append-only-terminal-with-data", "guard-scope", okData && okTerm, ci.Pos(), "a node's data is collected only when terminal && data != nil")
			// and what is returned on that path is the accumulated list
			okRet := false
			for _, r := range core.Returns(col) {
				if core.Slice(r.Results[0])[ci.Value()] {
					okRet = true
				}
			}
			accum := false
			for _, rc := range rec {
				if core.Slice(ci.Common().Args[0])[rc.Value()] {
					accum = true
				}
			}
			c.Check("collected:returns-accumulated-list", "value-flow", okRet && accum, ci.Pos(), "the appended list extends what the descent returned and is returned")
		}
		c.Exactly("collected/appends-of-node-data", nApp, 1)

		// every node allocated on put's write path carries the requested dye before it is published
		put := c.Fn(F("PatriciaTrie.put"))
		ptag := a.tagParam(put)
		if ptag == nil {
			c.Undecided("put:fresh-nodes-dyed", "cow-ownership", put.Pos(), "no dye parameter")
			return
		}
		// the nodes on the write path: every private copy (Clone result) and every new node that receives the data being written.
		// A new node that merely re-hangs an existing subtree (old data, old dye) is not on the path.
		dataF2 := c.FieldVar(F("PatriciaNode"), "data")
		var dataParam *ssa.Parameter
		for _, p := range put.Params {
			if types.Identical(p.Type(), dataF2.Type()) {
				dataParam = p
			}
		}
		if dataParam == nil {
			c.Undecided("put:fresh-nodes-dyed", "cow-ownership", put.Pos(), "no data parameter")
			return
		}
		var freshNodes []ssa.Value
		for _, b := range put.Blocks {
			for _, in := range b.Instrs {
				switch x := in.(type) {
				case *ssa.Alloc:
					if !a.isNodePtr(x.Type()) {
						continue
					}
					for _, s := range a.fieldStores(put, x, dataF2) {
						if a.sameNode(s.Val, dataParam) {
							freshNodes = append(freshNodes, x)
							break
						}
					}
				case *ssa.Call:
					// private copies made by this activation; what the recursion returns was dyed by the activation that made it
					if a.isFreshCall(x) && core.CalleeObj(x) != c.Method(F("PatriciaTrie"), "put") {
						freshNodes = append(freshNodes, x)
					}
				}
			}
		}
		counts := map[string]int{}
		nDyed := 0
		for _, fnode := range freshNodes {
			var dyeStore *ssa.Store
			for _, s := range a.fieldStores(put, fnode, a.tag) {
				if a.sameNode(s.Val, ptag) {
					dyeStore = s
				}
			}
			ok := dyeStore != nil
			if call, isCall := fnode.(*ssa.Call); !ok && isCall && a.taggedAtBirth(call, ptag) {
				nDyed++
				k := "put:" + a.describe(put, fnode) + ".dye=dye-before-publication"
				counts[k]++
				if counts[k] > 1 {
					k += "#" + string(rune('a'+counts[k]-1))
				}
				c.Check(k, "cow-ownership", true, fnode.Pos(), "the copy is built by a constructor that stores the requested dye")
				continue
			}
			if ok && fnode.Referrers() != nil {
				for _, r := range *fnode.Referrers() {
					pub := false
					switch u := r.(type) {
					case *ssa.Return:
						pub = true
					case *ssa.Store:
						pub = u.Val == fnode
					case ssa.CallInstruction:
						for _, arg := range u.Common().Args {
							if arg == fnode {
								pub = true
							}
						}
					case *ssa.Phi:
						pub = true
					}
					if pub && !core.Dominates(dyeStore, r) {
						ok = false
					}
				}
			}
			k := "put:" + a.describe(put, fnode) + ".dye=dye-before-publication"
			counts[k]++
			if counts[k] > 1 {
				k += "#" + string(rune('a'+counts[k]-1))
			}
			if ok {
				nDyed++
			}
			c.Check(k, "cow-ownership", ok, fnode.Pos(), "a node allocated by put is given the requested dye before it is linked into the trie or returned (otherwise Collected(dye) does not reach the write)")
		}
		c.Floor("put/fresh-nodes-dyed", nDyed, 12)
	})
	c.Run("persist", func() {
		bc := c.Fn(F("ChainDatabase.blockCommit"))
		unconf := c.FieldVar(F("ChainDatabase"), "UnConfirmBlocks")
		collect := c.Method(F("AccountTrieDB"), "Collect")
		height := c.Method("chain/types.Block", "Height")
		cs := core.CallsIn(bc, collect)
		c.Exactly("blockCommit/Collect-calls", len(cs), 1)
		if len(cs) != 1 {
			return
		}
		args := cs[0].Common().Args
		// the item is UnConfirmBlocks[hash]
		var item ssa.Value
		for v := range core.Slice(args[0]) {
			if lk, ok := v.(*ssa.Lookup); ok {
				if _, f, isLd := core.FieldLoad(lk.X); isLd && f == unconf && core.Derived(bc.Params[1])[lk.Index] {
					item = lk
				}
			}
		}
		okRecv, okDye := false, false
		if item != nil {
			if b, f, isLd := core.FieldLoad(args[0]); isLd && f == c.FieldVar(F("CBlock"), "AccountTrieDB") && core.Derived(item)[b] {
				okRecv = true
			}
			ds := core.Slice(args[1])
			okDye = core.SliceHasCall(ds, height) && ds[item] && core.SliceHasField(ds, c.FieldVar(F("CBlock"), "Block"))
		}
		c.Check("blockCommit:Collect(item.Block.Height()) on item.AccountTrieDB", "value-flow", okRecv && okDye, cs[0].Pos(),
			"the accounts persisted are those dyed with the committed block's own height in the committed block's own trie (item = UnConfirmBlocks[hash])")
		// they reach the batch that is committed
		commit := c.Method(F("BeansDB"), "Commit")
		cm := core.CallsIn(bc, commit)
		flows := false
		for _, ci := range core.AllCalls(bc) {
			if ci == cs[0] || len(ci.Common().Args) < 2 {
				continue
			}
			as := ci.Common().Args
			if core.Derived(cs[0].Value())[as[0]] && len(cm) == 1 {
				batch := cm[0].Common().Args[len(cm[0].Common().Args)-1]
				if core.SameLoc(as[1], batch) || as[1] == batch || core.Derived(batch)[as[1]] || sameCellLoad(as[1], batch) {
					if core.Dominates(ci, cm[0]) {
						flows = true
					}
				}
			}
		}
		// inline form: the loop over the collected accounts puts each encoding into the batch itself
		if !flows && len(cm) == 1 {
			batch := cm[0].Common().Args[len(cm[0].Common().Args)-1]
			for _, ci := range core.AllCalls(bc) {
				o := core.CalleeObj(ci)
				if o == nil || o.Name() != "Put" || ci == cm[0] {
					continue
				}
				recv := c4Recv(ci)
				if recv == nil {
					continue
				}
				sameBatch := recv == batch || core.Derived(batch)[recv] || core.SliceShallow(recv)[batch] || sameCellLoad(recv, batch) || core.SameLoc(recv, batch)
				fromCollect := false
				for _, a := range c4Args(ci) {
					if core.Slice(a)[cs[0].Value()] {
						fromCollect = true
					}
				}
				if sameBatch && fromCollect && core.ReachableAfter(ci, cm[0]) && !core.ReachableAfter(cm[0], ci) {
					flows = true
				}
			}
		}
		c.Check("blockCommit:Collect→batch→Commit", "value-flow", flows, cs[0].Pos(), "the collected accounts are encoded into the very batch that Beansdb.Commit writes, before it is committed")
	})

	c.Clause("C09.9", "views share nothing mutable by reference: AccountTrieDB.Clone and CandidateTrieDB.Clone give the clone its own maps and slices")
	c.Run("clone-shares-nothing-mutable", func() { c09CloneSharesNothingMutable(c) })

	c.NotDecidedf("functional correctness of the trie: that find/insert/put locate the right child, keep children sorted, split and merge prefixes correctly, or that Put of an existing key with the same dye updates the value (it returns early)")
	c.NotDecidedf("the stale-cache question: a stable value cached in place (dye 0) in a node shared by several views is not refreshed when the stable block changes; memory growth of the in-memory tries")
	c.NotDecidedf("that the dye handed to Put (account.Manager.CurrentBlockHeight / Block.Height) equals the height later used by Collect (arithmetic), and that heights strictly increase along a branch")
	c.NotDecidedf("Address.Hex() having one length for every address and the account and candidate wrappers never sharing a PatriciaTrie (trusted for the allow-listed prefix branch); thread-safety of the views (C19)")

	// -----------------------------------------------------------------------------------------
	c.Clause("C09.7", "the persisted account data a reader gets equals the stable view: acknowledged writes that the asynchronous writer has not persisted yet are answered from the pending index, "+
		"whose entries count the pending writes per key and leave only with the last of them (the pending-index rules of C08.4, evaluated here as well)")
	c.Run("pending-index", func() { c08PendingIndex(c) })

	// -----------------------------------------------------------------------------------------
	c.Clause("C09.8", "what the asynchronous writer persists can be read back: BitCask.Put indexes a record at the cursor as it is after checkAndFlush (which may have rolled over to a new data file), data before index before cursor (the rules of C08.2 on BitCask.Put, evaluated here as well)")
	c.Run("BitCask.Put", func() { c08BitCaskPut(c, newOrder(c)) })

	// -----------------------------------------------------------------------------------------
	c.Clause("C09.6", "the mutable account the manager works on never aliases a value stored in a view: AccountTrieDB.Get hands out copies only, or NewAccount copies what it is given")
	c.Run("copy-at-the-boundary", func() { c09CopyAtBoundary(c) })

}

func suffix(i, n int) string {
	if n <= 1 {
		return ""
	}
	return "#" + string(rune('a'+i))
}

// cellOfAddr: the local cell (possibly captured) an address denotes.
func cellOfAddr(addr ssa.Value, fn *ssa.Function) *ssa.Alloc {
	switch x := addr.(type) {
	case *ssa.Alloc:
		return x
	case *ssa.FreeVar:
		// reuse CellOf through a synthetic view: find the binding in the parent
		if fn.Parent() == nil {
			return nil
		}
		for i, fv := range fn.FreeVars {
			if fv != x {
				continue
			}
			for _, b := range fn.Parent().Blocks {
				for _, in := range b.Instrs {
					if mc, ok := in.(*ssa.MakeClosure); ok && mc.Fn == fn && i < len(mc.Bindings) {
						return cellOfAddr(mc.Bindings[i], fn.Parent())
					}
				}
			}
		}
	}
	return nil
}

// sameCellLoad: both values are loads of the same local cell.
func sameCellLoad(a, b ssa.Value) bool {
	la, ok1 := a.(*ssa.UnOp)
	lb, ok2 := b.(*ssa.UnOp)
	if !ok1 || !ok2 {
		return false
	}
	ca, ok1 := la.X.(*ssa.Alloc)
	cb, ok2 := lb.X.(*ssa.Alloc)
	return ok1 && ok2 && ca == cb
}

// reachFromEntryCut: blocks reachable from the entry of fn, never entering avoid and never following the edge cut (if any).
func reachFromEntryCut(fn *ssa.Function, avoid map[*ssa.BasicBlock]bool, cut *core.CondEdge) map[*ssa.BasicBlock]bool {
	return reachFromCut(fn.Blocks[0], avoid, cut)
}

func reachFromCut(start *ssa.BasicBlock, avoid map[*ssa.BasicBlock]bool, cut *core.CondEdge) map[*ssa.BasicBlock]bool {
	seen := map[*ssa.BasicBlock]bool{}
	if avoid[start] {
		return seen
	}
	seen[start] = true
	stack := []*ssa.BasicBlock{start}
	for len(stack) > 0 {
		b := stack[len(stack)-1]
		stack = stack[:len(stack)-1]
		for _, s := range b.Succs {
			if cut != nil && b == cut.If.Block() && s == cut.Succ() {
				continue
			}
			if avoid[s] || seen[s] {
				continue
			}
			seen[s] = true
			stack = append(stack, s)
		}
	}
	return seen
}

// c09CopyDeep: AccountData.Copy gives the copy its own counters, profile and version records. Evaluated under C09.6 and C11.6.
func c09CopyDeep(c *core.Ctx) {
	// premise of both halves: AccountData.Copy is deep for everything that is later written in place — the balance and vote counters
	// (big.Int mutators), the candidate profile (SetCandidateState writes the map) and the version records (map updates at finalisation).
	// Signers is shared on purpose: it is only ever replaced wholesale by a fresh list (C06.5).
	cp := c.Fn("chain/types.AccountData.Copy")
	family := []*ssa.Function{cp}
	for _, ci := range core.AllCalls(cp) {
		if h := core.StaticFn(ci); h != nil && h.Pkg == cp.Pkg && h.Blocks != nil && h != cp {
			family = append(family, h)
		}
	}
	for _, fspec := range [][2]string{{"chain/types.AccountData", "Balance"}, {"chain/types.Candidate", "Votes"}, {"chain/types.Candidate", "Profile"}, {"chain/types.AccountData", "NewestRecords"}} {
		fv := c.FieldVar(fspec[0], fspec[1])
		fresh := false
		for _, fn := range family {
			for _, stt := range storesToO8(fn, fv) {
				switch x := stt.Val.(type) {
				case *ssa.MakeMap, *ssa.MakeSlice, *ssa.Alloc:
					fresh = true
				case *ssa.Call:
					// new(big.Int).Set(old): a call on a freshly allocated receiver
					for _, a := range x.Call.Args {
						if al, ok := a.(*ssa.Alloc); ok && al.Heap {
							fresh = true
						}
					}
				}
			}
		}
		c.Check("AccountData.Copy:fresh/"+fspec[1], "value-flow", fresh, cp.Pos(), "AccountData.Copy (or a helper it calls) gives the copy its own %s: the copy handed to a block's execution must not share it with the value kept in the parent's view", fspec[1])
	}
}

// c09PutCOW is the copy-on-write clause C09.1 over PatriciaTrie.put (evaluated under C10 as well: the all-candidates index is such a trie).
func c09PutCOW(c *core.Ctx) {
	const st = "store"
	F := func(spec string) string { return st + "." + spec }
	a := &cow{node: c.Named(F("PatriciaNode")), tag: c.FieldVar(F("PatriciaNode"), "dye"), kids: c.FieldVar(F("PatriciaNode"), "children"),
		fresh: []*types.Func{c.Method(F("PatriciaNode"), "Clone")}}
	keyField := c.FieldVar(F("PatriciaNode"), "key")
	put := c.Fn(F("PatriciaTrie.put"))
	putObj := c.Method(F("PatriciaTrie"), "put")
	tag := a.tagParam(put)
	var keyParam *ssa.Parameter
	for _, p := range put.Params {
		if types.Identical(p.Type(), keyField.Type()) {
			if keyParam != nil {
				keyParam = nil
				break
			}
			keyParam = p
		}
	}
	if tag == nil || keyParam == nil || len(put.AnonFuncs) > 0 {
		c.Undecided("put:shape", "cow-ownership", put.Pos(), "put must have exactly one parameter of the dye's type, one of the key's type and no closures")
		return
	}
	unreachable := func(b *ssa.BasicBlock) bool {
		mask, _ := lenSigns(b, keyParam, keyField)
		return mask == 1 // only len(key) < len(child.key) remains possible
	}
	counts := map[string]int{}
	uniq := func(k string) string {
		counts[k]++
		if counts[k] == 1 {
			return k
		}
		return k + "#" + string(rune('a'+counts[k]-1))
	}
	descAll := func(vs []ssa.Value) string {
		var ds []string
		for _, v := range vs {
			ds = append(ds, a.describe(put, v))
		}
		sort.Strings(ds)
		if len(ds) == 0 {
			return "unknown"
		}
		return strings.Join(ds, "+")
	}
	nGuarded, nUnreach := 0, 0
	for _, w := range a.writes(put, putObj) {
		base := "put:" + w.Kind + "@" + descAll(w.Owners)
		ok := !w.Unknown
		for _, o := range w.Owners {
			if !a.ownedAt(w.Instr.Block(), o, tag) {
				ok = false
			}
		}
		switch {
		case ok:
			nGuarded++
			c.Check(uniq(base), "cow-ownership", true, w.Instr.Pos(), "write (%s) to memory of %s is dominated by the equal edge of `%s.dye == dye`", w.Kind, descAll(w.Owners), descAll(w.Owners))
		case unreachable(w.Instr.Block()):
			nUnreach++
			c.CheckTrivial(uniq("put[prefix-branch]:"+w.Kind+"@"+descAll(w.Owners)), "unreachable-shape", true, w.Instr.Pos(),
				"allow-listed: only reachable when len(key) < len(child.key), impossible while all keys of one trie have the same length (see fixed-length-keys)")
		case w.Unknown:
			c.Undecided(uniq(base), "cow-ownership", w.Instr.Pos(), "the origin of the written slice cannot be determined")
		default:
			c.Check(uniq(base), "cow-ownership", false, w.Instr.Pos(), "write (%s) to memory of %s must be dominated by the equal edge of `%s.dye == dye`", w.Kind, descAll(w.Owners), descAll(w.Owners))
		}
	}
	c.Floor("put/guarded-in-place-writes", nGuarded, 8)
	nClones := 0
	for _, ci := range core.AllCalls(put) {
		if v := ci.Value(); v != nil && a.isFreshCall(v) {
			nClones++
		}
	}
	c.Floor("put/clone-sites", nClones, 9)

	nKidStores := 0
	// a fresh node must not take over the children array of a node it does not own: the non-COW insert (clause 3) and the
	// owner's guarded in-place writes shift/append inside that array (append within capacity), which the sharer would observe
	for _, b := range put.Blocks {
		for _, in := range b.Instrs {
			s, ok := in.(*ssa.Store)
			if !ok {
				continue
			}
			fa, ok := s.Addr.(*ssa.FieldAddr)
			if !ok || core.FieldOf(fa) != a.kids || !a.isNodePtr(fa.X.Type()) || len(a.nonFresh(fa.X)) > 0 {
				continue
			}
			nKidStores++
			owners, unk := a.sliceOwners(s.Val)
			var foreign []ssa.Value
			for _, o := range owners {
				if !a.ownedAt(b, o, tag) {
					foreign = append(foreign, o)
				}
			}
			if len(foreign) == 0 && !unk {
				continue
			}
			who := a.describe(put, a.sources(fa.X)[0]) + "<-" + descAll(foreign)
			if unreachable(b) {
				nUnreach++
				c.CheckTrivial(uniq("put[prefix-branch]:shared-children:"+who), "unreachable-shape", true, s.Pos(), "allow-listed: inside the unreachable prefix branch")
				continue
			}
			c.Check(uniq("put:shared-children:"+who), "cow-ownership", false, s.Pos(),
				"a freshly allocated node receives the children slice of %s without copying it: both slice headers share one backing array, and an in-place insert on either side (append within capacity + shift) corrupts the other view", descAll(foreign))
			// while the array is shared the fresh node must at least keep the foreign dye, otherwise this view would write into it in place
			okTag := true
			for _, src := range a.sources(fa.X) {
				for _, ts := range a.fieldStores(put, src, a.tag) {
					if a.sameNode(ts.Val, tag) {
						okTag = false
					}
				}
			}
			c.Check(uniq("put:shared-subtree-keeps-old-dye:"+who), "cow-ownership", okTag, s.Pos(),
				"a fresh node that shares a foreign children array must not carry the requested dye (it would be written in place by the next put of this view)")
		}
	}
	c.CheckTrivial("count/put/prefix-branch-instances", "instance-count", nUnreach <= 2, put.Pos(), "allow-listed instances inside the unreachable prefix branch = %d, hand-confirmed at most 2 (removing the dead branch is fine, a new instance is not)", nUnreach)
	c.Floor("put/children-assignments-to-fresh-nodes-examined", nKidStores, 12)

	// Clone does not write through its receiver
	cl := c.Fn(F("PatriciaNode.Clone"))
	c.Check("Clone:read-only", "cow-ownership", len(a.writes(cl, nil)) == 0, cl.Pos(), "PatriciaNode.Clone must not write to the node it copies")

	// the recursion and the public wrapper pass the requested dye on unchanged, and the wrapper installs the returned root
	tagIdx := -1
	for i, p := range put.Params {
		if p == tag {
			tagIdx = i
		}
	}
	rec := core.CallsIn(put, putObj)
	for i, ci := range rec {
		args := ci.Common().Args
		c.Check("put:recursion-passes-dye"+suffix(i, len(rec)), "value-flow", tagIdx < len(args) && a.sameNode(args[tagIdx], tag), ci.Pos(), "the recursive put must receive the same dye")
	}
	c.Floor("put/recursive-calls", len(rec), 1)
	Put := c.Fn(F("PatriciaTrie.Put"))
	root := c.FieldVar(F("PatriciaTrie"), "root")
	pc := core.CallsIn(Put, putObj)
	ok := len(pc) == 1
	if ok {
		args := pc[0].Common().Args
		pt := a.tagParam(Put)
		ok = pt != nil && tagIdx < len(args) && a.sameNode(args[tagIdx], pt)
		if b, f, isLd := core.FieldLoad(args[1]); !isLd || f != root || b != Put.Params[0] {
			ok = false
		}
		installed := false
		for _, s := range storesToField(Put, Put.Params[0], root) {
			if core.Derived(pc[0].Value())[s.Val] {
				installed = true
			}
		}
		ok = ok && installed
	}
	c.Check("Put:root,dye→put→root", "value-flow", ok, Put.Pos(), "PatriciaTrie.Put starts at its own root with its dye and installs the root put returns")
}

// c09CopyAtBoundary is clause C09.6 (the manager's mutable account never aliases a value kept in a view); evaluated under C12.9 as well.
func c09CopyAtBoundary(c *core.Ctx) {
	const st = "store"
	F := func(spec string) string { return st + "." + spec }
	_ = F
	adCopy := c.Method("chain/types.AccountData", "Copy")
	candCopy := []*types.Func{c.Method(F("Candidate"), "Copy"), c.Method(F("Candidate"), "Clone")}
	isCopyOf := func(v ssa.Value, src ssa.Value, copies ...*types.Func) bool {
		if mi, ok := v.(*ssa.MakeInterface); ok {
			v = mi.X
		}
		ci, ok := v.(*ssa.Call)
		if !ok {
			return false
		}
		for _, m := range copies {
			if core.CalleeObj(ci) == m {
				recv := c4Recv(ci)
				return src == nil || (recv != nil && core.Slice(recv)[src])
			}
		}
		return false
	}
	// (The copies Put/Set make on the way IN are not held to a rule: Manager.Save drops its account cache right after the Puts, so a Put
	// that kept the caller's object would not be observable; demanding the copy would flag a behaviour-preserving removal.)
	_ = candCopy
	// way out: Get hands out copies only ...
	get := c.Fn(F("AccountTrieDB.Get"))
	var onlyCopies func(v ssa.Value, d int) bool
	onlyCopies = func(v ssa.Value, d int) bool {
		v = core.ResolveSpill(v)
		if core.IsNilConst(v) {
			return true
		}
		if ph, ok := v.(*ssa.Phi); ok && d < 6 {
			for _, e := range ph.Edges {
				if !onlyCopies(e, d+1) {
					return false
				}
			}
			return true
		}
		return isCopyOf(v, nil, adCopy)
	}
	getCopies := true
	for _, r := range core.Returns(get) {
		if r.Block() == get.Recover {
			continue
		}
		if !onlyCopies(core.RetVal(r, 0), 0) {
			getCopies = false
		}
	}
	// ... or NewAccount copies what it is given before it keeps it
	na := c.Fn("chain/account.NewAccount")
	dataF := c.FieldVar("chain/account.Account", "data")
	newCopies := false
	for _, st := range storesToO8(na, dataF) {
		// the kept value is, on the path where the parameter was not nil, a Copy of the parameter: the parameter itself must not reach the field
		sl := core.Slice(st.Val)
		direct := false
		var walk func(v ssa.Value, d int)
		walk = func(v ssa.Value, d int) {
			if d > 6 {
				return
			}
			switch x := v.(type) {
			case *ssa.Parameter:
				if x == na.Params[2] {
					direct = true
				}
			case *ssa.Phi:
				for _, e := range x.Edges {
					walk(e, d+1)
				}
			case *ssa.UnOp:
				if rs := core.ReachingStore(x); rs != nil {
					walk(rs.Val, d+1)
				} else if al, ok := x.X.(*ssa.Alloc); ok && x.Op == token.MUL {
					for _, r := range *al.Referrers() {
						if s2, ok := r.(*ssa.Store); ok && s2.Addr == ssa.Value(al) {
							walk(s2.Val, d+1)
						}
					}
				}
			}
		}
		walk(st.Val, 0)
		if !direct && core.SliceHasCall(sl, adCopy) {
			newCopies = true
		}
	}
	c09CopyDeep(c)
	c.Check("manager-account-never-aliases-a-view", "value-flow", getCopies || newCopies, get.Pos(),
		"AccountTrieDB.Get returns copies only (%v) or NewAccount copies its data argument (%v): with neither, executing a block writes into the value cached in the parent's view, which every sibling shares", getCopies, newCopies)
	c.Note("AccountTrieDB.Get returns copies only: %v; NewAccount copies: %v", getCopies, newCopies)
}
