package rules

import (
	"go/token"
	"go/types"

	"golang.org/x/tools/go/ssa"

	"verif/lint/internal/core"
)

// Ordering across closure and helper boundaries ("E12 with closure bodies inlined at their call site").
//
// An *event* is a predicate on call instructions (a call of a resolved function, possibly with a condition on an argument).
//
//   must-site of event A in function F  = an instruction of F after whose successful completion A certainly happened: a
//                                         matching call, or a call of a resolved callee (static callee in the repository or a
//                                         function literal bound to a local variable) that *guarantees* A;
//   G guarantees A                       = every possibly successful return of G is preceded by a must-site of A whose failure
//                                         is heeded (tested, rejecting edge only reaches failure exits) or passed on as G's error;
//   A established before instruction X   = a must-site of A in X's function dominates X and its rejecting outcome cannot reach X;
//                                         or X's function is a function literal / helper and A is established before every
//                                         place where that function is called (or created, if the literal escapes).

type evPred struct {
	name  string
	match func(ci ssa.CallInstruction) bool
}

// callsTo is the event "a call that may call one of targets".
func callsTo(name string, targets ...*types.Func) evPred {
	return evPred{name, func(ci ssa.CallInstruction) bool {
		o := core.CalleeObj(ci)
		for _, t := range targets {
			if core.SameFamily(o, t) {
				return true
			}
		}
		return false
	}}
}

type orderEngine struct {
	c    *core.Ctx
	memo map[[2]interface{}]int // 0 unknown, 1 in progress / false, 2 true
}

func newOrder(c *core.Ctx) *orderEngine {
	return &orderEngine{c: c, memo: map[[2]interface{}]int{}}
}

// repoCallee: the repository function with a body that ci certainly executes (nil otherwise).
func repoCallee(ci ssa.CallInstruction) *ssa.Function {
	f := core.CalleeFn(ci)
	if f == nil || f.Blocks == nil || !core.InRepo(f) {
		return nil
	}
	return f
}

func hasErrResult(ci ssa.CallInstruction) bool {
	rs := ci.Common().Signature().Results()
	for i := 0; i < rs.Len(); i++ {
		if core.IsErrorType(rs.At(i).Type()) {
			return true
		}
	}
	return false
}

// errReturned: on every path after the call the function either fails or hands the call's own error to its caller.
func errReturned(ci ssa.CallInstruction) bool {
	v := core.ErrResult(ci)
	if v == nil {
		return false
	}
	fn := ci.Parent()
	res := fn.Signature.Results()
	idx := -1
	for i := res.Len() - 1; i >= 0; i-- {
		if core.IsErrorType(res.At(i).Type()) {
			idx = i
			break
		}
	}
	if idx < 0 {
		return false
	}
	d := core.Derived(v)
	n := 0
	for _, r := range core.Returns(fn) {
		if !core.ReachableAfter(ci, r) {
			continue
		}
		n++
		if d[core.RetVal(r, idx)] || d[r.Results[idx]] {
			continue
		}
		if core.ClassifyReturn(r, d, nil) == core.RetFailure {
			continue
		}
		return false
	}
	return n > 0
}

// heededOrReturned: the error of the call is tested and heeded (once the call executed, no possibly successful exit is
// reachable with the accepting edge of the test removed — also for calls inside loops or under a condition), or passed on unchanged.
func heededOrReturned(ci ssa.CallInstruction) (bool, string) {
	if !hasErrResult(ci) {
		return true, ""
	}
	v := core.ErrResult(ci)
	if v == nil || !valueUsed(v) {
		return false, "the error result is dropped"
	}
	if errReturned(ci) {
		return true, ""
	}
	fn := ci.Parent()
	d := core.Derived(v)
	why := "the error is never compared with nil"
	for _, t := range core.TestsOf(v, core.ErrNonNil) {
		if !core.Dominates(ci, t.If) || t.Fail == t.OK {
			continue
		}
		bad := false
		if t.Value != nil {
			// from the call: the paths that leave the test by its rejecting edge, knowing the error is not nil there
			if b, _ := core.FailEdgeBadReturns(t, t.Value, core.ErrNonNil, nil, nil); len(b) > 0 {
				bad = true
			}
			// and no exit between the call and the test (the test is the only way on)
			r0 := core.ReachCutAvoid(ci.Block(), nil, map[*ssa.BasicBlock]bool{t.If.Block(): true})
			for _, ret := range core.Returns(fn) {
				if ci.Block() != t.If.Block() && r0[ret.Block()] && ret.Block() != ci.Block() && core.ClassifyReturn(ret, d, nil) != core.RetFailure {
					bad = true
				}
			}
		} else {
			r := core.ReachCut(ci.Block(), map[[2]*ssa.BasicBlock]bool{{t.If.Block(), t.OK}: true})
			for _, ret := range core.Returns(fn) {
				if r[ret.Block()] && core.ClassifyReturn(ret, d, nil) != core.RetFailure {
					bad = true
				}
			}
		}
		if !bad {
			return true, ""
		}
		why = "after a failure a possibly successful return is still reachable"
	}
	return false, why
}

func valueUsed(x ssa.Value) bool {
	if x == nil || x.Referrers() == nil {
		return false
	}
	for _, r := range *x.Referrers() {
		if _, dbg := r.(*ssa.DebugRef); !dbg {
			return true
		}
	}
	return false
}

// realReturns lists the returns of fn except the one in the synthetic recover block of functions with defer.
func realReturns(fn *ssa.Function) []*ssa.Return {
	var out []*ssa.Return
	for _, r := range core.Returns(fn) {
		if r.Block() != fn.Recover {
			out = append(out, r)
		}
	}
	return out
}

func (e *orderEngine) mustSites(fn *ssa.Function, p evPred, depth int) []ssa.CallInstruction {
	var out []ssa.CallInstruction
	for _, b := range fn.Blocks {
		for _, in := range b.Instrs {
			ci, ok := in.(*ssa.Call)
			if !ok {
				continue
			}
			if p.match(ci) {
				out = append(out, ci)
				continue
			}
			if callee := repoCallee(ci); callee != nil && callee != fn && e.guarantees(callee, p, depth+1) {
				out = append(out, ci)
			}
		}
	}
	return out
}

// guarantees: see the file comment.
func (e *orderEngine) guarantees(fn *ssa.Function, p evPred, depth int) bool {
	if depth > 5 {
		return false
	}
	key := [2]interface{}{fn, p.name}
	switch e.memo[key] {
	case 1:
		return false
	case 2:
		return true
	}
	e.memo[key] = 1
	var avoid []*ssa.BasicBlock
	for _, m := range e.mustSites(fn, p, depth) {
		if ok, _ := heededOrReturned(m); ok {
			avoid = append(avoid, m.Block())
		}
	}
	if len(avoid) == 0 {
		return false
	}
	for _, r := range core.Returns(fn) {
		if core.ClassifyReturn(r, nil, nil) == core.RetFailure || in(avoid, r.Block()) {
			continue
		}
		if core.CanReach(fn.Blocks[0], r.Block(), avoid...) {
			return false
		}
	}
	e.memo[key] = 2
	return true
}

// localBefore: a must-site of p in action's own function dominates action and its rejecting outcome cannot reach it.
func (e *orderEngine) localBefore(action ssa.Instruction, p evPred) (bool, string) {
	fn := action.Parent()
	why := "no " + p.name + " precedes it in " + shortFn(fn)
	for _, m := range e.mustSites(fn, p, 0) {
		if ssa.Instruction(m) == action {
			continue
		}
		if hasErrResult(m) {
			v := core.ErrResult(m)
			if v == nil {
				why = "the error of " + p.name + " is dropped"
				continue
			}
			ok, w := core.ValueHeededBefore(m, v, core.ErrNonNil, action)
			if ok {
				return true, ""
			}
			why = p.name + " in " + shortFn(fn) + ": " + w
		} else if core.Dominates(m, action) {
			return true, ""
		} else {
			why = p.name + " does not dominate it in " + shortFn(fn)
		}
	}
	return false, why
}

// establishedBefore: event p certainly happened, successfully, before `action` executes — in action's function, or before
// every use of that function (function literal: its calls / creation; helper: every call site in the repository).
func (e *orderEngine) establishedBefore(action ssa.Instruction, p evPred, depth int) (bool, string) {
	fn := action.Parent()
	ok, why := e.localBefore(action, p)
	if ok {
		return true, ""
	}
	if depth > 3 {
		return false, why
	}
	var sites []ssa.Instruction
	if fn.Parent() != nil {
		calls, creation, escapes := core.ClosureUses(fn)
		for _, ci := range calls {
			sites = append(sites, ci)
		}
		if escapes {
			if len(creation) == 0 {
				return false, why + "; the function literal " + shortFn(fn) + " escapes and its creation was not found"
			}
			sites = append(sites, creation...)
		}
	} else if obj, ok := fn.Object().(*types.Func); ok {
		for _, s := range e.c.CallSites(obj) {
			sites = append(sites, s.Instr)
		}
	}
	if len(sites) == 0 {
		return false, why
	}
	for _, s := range sites {
		if ok, w := e.establishedBefore(s, p, depth+1); !ok {
			return false, why + "; and not before the use of " + shortFn(fn) + " in " + shortFn(s.Parent()) + " (" + w + ")"
		}
	}
	return true, ""
}

// dsite is a call found by deepSites together with the calls of helper functions that lead to it from the root (outermost
// first); function literals are not part of the chain, their uses are looked up where needed.
type dsite struct {
	call  ssa.CallInstruction
	chain []ssa.CallInstruction
}

func siteCalls(ds []dsite) []ssa.CallInstruction {
	out := make([]ssa.CallInstruction, len(ds))
	for i, d := range ds {
		out[i] = d.call
	}
	return out
}

// up moves from an instruction to the place where its function is entered in the context of d: the unique call of a function
// literal, or the call of the helper recorded in d's chain. nil when there is none (root reached or ambiguous).
func (d dsite) up(cur ssa.Instruction) ssa.CallInstruction {
	fn := cur.Parent()
	if fn.Parent() != nil {
		calls, _, escapes := core.ClosureUses(fn)
		if escapes || len(calls) != 1 {
			return nil
		}
		return calls[0]
	}
	for i := len(d.chain) - 1; i >= 0; i-- {
		if core.CalleeFn(d.chain[i]) == fn {
			return d.chain[i]
		}
	}
	return nil
}

// establishedAlong: p is established before d.call on the way from the root: in the function of the call, or in one of the
// functions the chain passes through, before the call that leads on. Falls back to establishedBefore (all uses) when the
// context is not known.
func (e *orderEngine) establishedAlong(d dsite, p evPred) (bool, string) {
	var cur ssa.Instruction = d.call
	why := ""
	for depth := 0; depth < 8; depth++ {
		ok, w := e.localBefore(cur, p)
		if ok {
			return true, ""
		}
		if why == "" {
			why = w
		}
		next := d.up(cur)
		if next == nil {
			if cur.Parent().Parent() != nil {
				// a function literal that escapes or has several uses: every use counts
				return e.establishedBefore(cur, p, 0)
			}
			return false, why
		}
		cur = next
	}
	return false, why
}

// returnedAlong: the error of d.call becomes the root's error: at every level up to root it is heeded or returned.
func (d dsite) returnedAlong(root *ssa.Function) bool {
	cur := d.call
	for depth := 0; depth < 8; depth++ {
		if ok, _ := heededOrReturned(cur); !ok {
			return false
		}
		if cur.Parent() == root {
			return true
		}
		cur = d.up(cur)
		if cur == nil {
			return false
		}
	}
	return false
}

// sliceAlong is core.Slice continued through the boundaries on the way from the root to d.call: a captured variable
// contributes the values stored into it anywhere in its family, a parameter contributes the argument at the call that leads here.
func (d dsite) sliceAlong(v ssa.Value) map[ssa.Value]bool {
	out := map[ssa.Value]bool{}
	todo := []ssa.Value{v}
	for len(todo) > 0 && len(out) < 6000 {
		x := todo[0]
		todo = todo[1:]
		if x == nil {
			continue
		}
		for y := range core.Slice(x) {
			if out[y] {
				continue
			}
			out[y] = true
			switch z := y.(type) {
			case *ssa.FreeVar:
				if al := core.CellOf(z); al != nil {
					for _, s := range core.CellStores(al) {
						todo = append(todo, s.Val)
					}
				}
			case *ssa.Parameter:
				if a := d.argFor(z); a != nil {
					todo = append(todo, a)
				}
			}
		}
	}
	return out
}

// argFor: the argument bound to parameter p at the call that leads to p's function in the context of d.
func (d dsite) argFor(p *ssa.Parameter) ssa.Value {
	fn := p.Parent()
	var call ssa.CallInstruction
	if fn.Parent() != nil {
		calls, _, escapes := core.ClosureUses(fn)
		if escapes || len(calls) != 1 {
			return nil
		}
		call = calls[0]
	} else {
		for i := len(d.chain) - 1; i >= 0; i-- {
			if core.CalleeFn(d.chain[i]) == fn {
				call = d.chain[i]
			}
		}
	}
	if call == nil {
		return nil
	}
	for i, q := range fn.Params {
		if q == p && i < len(call.Common().Args) {
			return call.Common().Args[i]
		}
	}
	return nil
}

// denotes: value v at d.call's place denotes the object obj created in the root (followed through parameters, captured
// variables and interface conversions).
func (d dsite) denotes(v, obj ssa.Value) bool {
	if v == nil || obj == nil {
		return false
	}
	der := core.Derived(obj)
	for depth := 0; depth < 8; depth++ {
		if v == obj || der[v] {
			return true
		}
		switch x := v.(type) {
		case *ssa.Parameter:
			v = d.argFor(x)
			if v == nil {
				return false
			}
		case *ssa.UnOp:
			if x.Op != token.MUL {
				return false
			}
			al := core.CellOf(x.X)
			if al == nil {
				return false
			}
			sts := core.CellStores(al)
			if len(sts) != 1 {
				return false
			}
			v = sts[0].Val
		case *ssa.ChangeInterface:
			v = x.X
		case *ssa.MakeInterface:
			v = x.X
		default:
			return false
		}
	}
	return false
}

// deepSites lists the calls matching p that executing root may perform: in root, in the function literals nested in it, and in
// the resolved helper functions of the same package (matched calls are not descended into), each with the chain of helper
// calls that leads to it.
func deepSites(root *ssa.Function, p evPred, maxDepth int) []dsite {
	var out []dsite
	pkg := core.RelPkg(root)
	var walk func(fn *ssa.Function, chain []ssa.CallInstruction)
	walk = func(fn *ssa.Function, chain []ssa.CallInstruction) {
		for _, ci := range core.AllCalls(fn) {
			if p.match(ci) {
				out = append(out, dsite{ci, append([]ssa.CallInstruction{}, chain...)})
				continue
			}
			callee := repoCallee(ci)
			if callee == nil || callee.Parent() != nil || callee == root || len(chain) >= maxDepth || core.RelPkg(callee) != pkg || len(out) > 64 {
				continue
			}
			cyc := false
			for _, c := range chain {
				if core.CalleeFn(c) == callee {
					cyc = true
				}
			}
			if !cyc {
				walk(callee, append(append([]ssa.CallInstruction{}, chain...), ci))
			}
		}
		for _, a := range fn.AnonFuncs {
			walk(a, chain)
		}
	}
	walk(root, nil)
	return out
}

// afterSites checks "p is established before every site, on the way from the root" and records one obligation per site.
func (e *orderEngine) afterSites(key string, p evPred, actionName string, ds []dsite) int {
	if len(ds) == 0 {
		e.c.Check(key, "order", false, token.NoPos, "no %s found", actionName)
		return 0
	}
	for i, d := range ds {
		k := key
		if len(ds) > 1 {
			k = key + "#" + string(rune('a'+i))
		}
		ok, why := e.establishedAlong(d, p)
		e.c.Check(k, "order", ok, d.call.Pos(), "%s must only execute after %s succeeded: %s", actionName, p.name, orOK(why))
	}
	return len(ds)
}

// after checks "p is established before every instruction of actions" and records one obligation per action.
func (e *orderEngine) after(key string, p evPred, actionName string, actions []ssa.Instruction) int {
	if len(actions) == 0 {
		e.c.Check(key, "order", false, token.NoPos, "no %s found", actionName)
		return 0
	}
	for i, a := range actions {
		k := key
		if len(actions) > 1 {
			k = key + "#" + string(rune('a'+i))
		}
		ok, why := e.establishedBefore(a, p, 0)
		e.c.Check(k, "order", ok, a.Pos(), "%s must only execute after %s succeeded: %s", actionName, p.name, orOK(why))
	}
	return len(actions)
}

// propagated records the obligation "the error of every call of target in fn is heeded or handed to the caller".
func propagated(c *core.Ctx, fn *ssa.Function, min int, targets ...*types.Func) []ssa.CallInstruction {
	calls := core.CallsIn(fn, targets...)
	key := shortFn(fn) + "→" + objName(targets[0])
	if len(calls) < min {
		c.Check(key, "guard-call-present", false, fn.Pos(), "%s must call %s (%d call(s) found, %d expected)", shortFn(fn), objName(targets[0]), len(calls), min)
		return calls
	}
	for i, g := range calls {
		k := key
		if len(calls) > 1 {
			k = key + "#" + string(rune('a'+i))
		}
		ok, why := heededOrReturned(g)
		c.Check(k, "heeded-guard", ok, g.Pos(), "in %s the error of %s must be tested (a failure must not reach a successful exit) or returned: %s", shortFn(fn), objName(targets[0]), orOK(why))
	}
	return calls
}

// storesToO8 lists the Store instructions of fn that write field f.
func storesToO8(fn *ssa.Function, f *types.Var) []*ssa.Store {
	var out []*ssa.Store
	for _, b := range fn.Blocks {
		for _, in := range b.Instrs {
			if st, ok := in.(*ssa.Store); ok && core.FieldOf(st.Addr) == f {
				out = append(out, st)
			}
		}
	}
	return out
}

// storesToDeep is storesToO8 over the family of fn (fn and the function literals nested in it).
func storesToDeep(fn *ssa.Function, f *types.Var) []*ssa.Store {
	out := storesToO8(fn, f)
	for _, a := range fn.AnonFuncs {
		out = append(out, storesToDeep(a, f)...)
	}
	return out
}

// ownedBy: function fn is one of the permitted owners, or an unexported helper all of whose callers (at least one) are owned.
// Used by closed who-may-call / who-may-write sets so that extracting a helper inside the owner does not change the verdict.
func ownedBy(c *core.Ctx, fn *ssa.Function, allowed map[string]bool, depth int) bool {
	fn = core.Outer(fn)
	if allowed[core.FuncName(fn)] {
		return true
	}
	obj, ok := fn.Object().(*types.Func)
	if !ok || obj.Exported() || depth > 3 {
		return false
	}
	_, sites := callersOf(c, obj)
	if len(sites) == 0 {
		return false
	}
	for _, s := range sites {
		if core.Outer(s.Caller) == fn {
			continue
		}
		if !ownedBy(c, s.Caller, allowed, depth+1) {
			return false
		}
	}
	return true
}

// closedCallersOwned is closedCallers with ownership lifted through unexported helpers.
func closedCallersOwned(c *core.Ctx, key string, allowedNames []string, targets ...*types.Func) []core.CallSite {
	allowed := map[string]bool{}
	for _, a := range allowedNames {
		allowed[a] = true
	}
	expandAllowed(c, allowed)
	_, sites := callersOf(c, targets...)
	seen := map[string]bool{}
	for _, s := range sites {
		n := core.FuncName(core.Outer(s.Caller))
		if seen[n] {
			continue
		}
		seen[n] = true
		c.Check(key+"@"+n, "who-may-call", ownedBy(c, s.Caller, allowed, 0), s.Instr.Pos(), "%s may only be called by %v (or by their private helpers); caller: %s", key, allowedNames, n)
	}
	return sites
}

// performs: root calls one of targets — directly, in a nested function literal or in a helper of the same package (depth
// levels) — at least min times, and the error of every such call is heeded or returned at every level up to root
// (obligation "root→target"). With must, additionally every possibly successful exit of root is preceded by a heeded call
// (obligation "root⇒target").
func (e *orderEngine) performs(root *ssa.Function, depth, min int, must bool, targets ...*types.Func) []dsite {
	p := callsTo(objName(targets[0]), targets...)
	ds := deepSites(root, p, depth)
	key := shortFn(root) + "→" + objName(targets[0])
	if len(ds) < min {
		e.c.Check(key, "guard-call-present", false, root.Pos(), "%s must call %s (%d call(s) found, %d expected)", shortFn(root), objName(targets[0]), len(ds), min)
		return ds
	}
	for i, d := range ds {
		k := key
		if len(ds) > 1 {
			k = key + "#" + string(rune('a'+i))
		}
		e.c.Check(k, "heeded-guard", d.returnedAlong(root), d.call.Pos(), "the error of %s must be tested (a failure must not reach a successful exit) or returned, at every level up to %s", objName(targets[0]), shortFn(root))
	}
	if must {
		e.c.Check(shortFn(root)+"⇒"+objName(targets[0]), "must-call", e.guarantees(root, p, 0), root.Pos(), "every possibly successful exit of %s is preceded by a heeded %s", shortFn(root), objName(targets[0]))
	}
	return ds
}
