package rules

import (
	"fmt"
	"go/token"
	"go/types"

	"golang.org/x/tools/go/ssa"

	"verif/lint/internal/core"
)

func init() { register("C18", c18) }

func c18(c *core.Ctx) {
	const tp = "chain/txpool"
	la := lockAnalysis(c)

	c.Clause("C18.1", "every access to the pool's and the replay guard's shared state holds their mutex (for writing where the access modifies the state, at least for reading otherwise), on every path from every caller")
	c.Run("locks", func() {
		n := lockDiscipline(c, la, tp+".TxPool", []string{"txs", "cap", "hashIndexMap"}, "txpool.TxPool.RW", false)
		c.Floor("TxPool/functions-with-accesses", n, 6)
		n = lockDiscipline(c, la, tp+".TxGuard", []string{"blockBuckets", "blockCache", "txTracer"}, "txpool.TxGuard.RW", false)
		c.Floor("TxGuard/functions-with-accesses", n, 5)
		r := noReentry(c, la, map[string]bool{tp: true})
		c.Check("reentry/scan/"+tp, "lock-reentry", r > 0, token.NoPos, "%d functions of %s scanned for re-acquisition of a held mutex", r, tp)
	})

	c.Clause("C18.2", "GetTxs hands out only non-nil, unexpired entries and stops at the requested size; the expiry test covers a box and each of its sub-txs")
	c.Run("selection", func() {
		fn := c.Fn(tp + ".TxPool.GetTxs")
		timeout := c.FuncObj(tp + ".isTxTimeOut")
		var appends []ssa.Instruction
		for _, ci := range core.AllCalls(fn) {
			if b, ok := ci.Common().Value.(*ssa.Builtin); ok && b.Name() == "append" {
				appends = append(appends, ci)
			}
		}
		c.Floor("GetTxs/appends", len(appends), 1)
		heededBefore(c, fn, timeout, core.IsTrue, "append(result,tx)", appends)
		for i, a := range appends {
			// the appended element was tested against nil
			ci := a.(ssa.CallInstruction)
			ok := false
			for _, cg := range condGuardsAny(fn) {
				if cg.nilTestOf != nil && core.Slice(ci.Common().Args[1])[cg.nilTestOf] && cg.guards(a) {
					ok = true
				}
			}
			c.Check("GetTxs:append-needs-tx≠nil#"+string(rune('a'+i)), "guarded-action", ok, a.Pos(), "a nil slot (deleted tx) is never handed out")
			// the timeout test is applied to the same tx and the caller's time
			for _, g := range core.CallsIn(fn, timeout) {
				args := g.Common().Args
				same := len(args) == 2 && core.Slice(ci.Common().Args[1])[args[0]] || len(args) == 2 && sharesElement(ci.Common().Args[1], args[0])
				c.Check("GetTxs:isTxTimeOut(tx,time)", "value-flow", same && args[1] == fn.Params[1], g.Pos(), "the expiry test is applied to the element that is appended, with the time given by the caller")
			}
		}
		// size bound: a test of len(result) >= size leaves the loop
		ok := false
		for _, b := range fn.Blocks {
			if ifi, isIf := b.Instrs[len(b.Instrs)-1].(*ssa.If); isIf {
				sl := core.Slice(ifi.Cond)
				hasLen := false
				for v := range sl {
					if ci, isCall := v.(*ssa.Call); isCall {
						if bi, isB := ci.Call.Value.(*ssa.Builtin); isB && bi.Name() == "len" {
							hasLen = true
						}
					}
				}
				if bo, isBo := ifi.Cond.(*ssa.BinOp); isBo && sl[fn.Params[2]] && hasLen {
					// which edge is taken when len(result) >= size ?
					isLen := func(v ssa.Value) bool {
						for {
							switch x := v.(type) {
							case *ssa.Convert:
								v = x.X
								continue
							case *ssa.Call:
								bi, isB := x.Call.Value.(*ssa.Builtin)
								return isB && bi.Name() == "len"
							}
							return false
						}
					}
					lenLeft := isLen(bo.X)
					if !lenLeft && !isLen(bo.Y) {
						continue
					}
					var exitWhenTrue, known bool
					switch bo.Op {
					case token.GEQ, token.GTR:
						exitWhenTrue, known = lenLeft, true
					case token.LEQ, token.LSS:
						exitWhenTrue, known = !lenLeft, true
					case token.EQL:
						exitWhenTrue, known = true, true
					}
					body, _ := core.LoopOf(b)
					if known && body != nil {
						exit := b.Succs[1]
						if exitWhenTrue {
							exit = b.Succs[0]
						}
						if !body[exit] {
							ok = true
						}
					}
				}
			}
		}
		c.Check("GetTxs:stops-at-size", "loop-exit", ok, fn.Pos(), "the selection loop is left once len(result) >= size")

		to := c.Fn(tp + ".isTxTimeOut")
		exp := c.Method("chain/types.Transaction", "Expiration")
		n := 0
		for _, cg := range core.CondGuards(to, &bFalse) {
			_ = cg
		}
		// two comparisons Expiration() < time whose true edge returns true: one on the tx, one on each sub-tx inside a loop
		for _, b := range to.Blocks {
			ifi, isIf := b.Instrs[len(b.Instrs)-1].(*ssa.If)
			if !isIf {
				continue
			}
			sl := core.Slice(ifi.Cond)
			if core.SliceHasCall(sl, exp) && sl[to.Params[1]] && core.SliceHasOp(sl, token.LSS) {
				// true edge returns true
				for _, r := range core.Returns(to) {
					if r.Block() == b.Succs[0] {
						if bv, isC := core.BoolConst(core.RetVal(r, 0)); isC && bv {
							n++
						}
					}
				}
			}
		}
		c.Check("isTxTimeOut:tx-and-each-sub-tx", "quantity-guard", n >= 2, to.Pos(), "Expiration() < time is tested for the tx itself and for each sub-tx of a box (%d tests)", n)
		c.Check("isTxTimeOut→getSubTxs", "must-call", len(core.CallsIn(to, c.FuncObj(tp+".getSubTxs"))) == 1, to.Pos(), "the sub-txs of a box are expanded")
	})

	c.Clause("C18.3", "delete really removes: an index entry is deleted only together with the slot it names; add indexes the tx and every sub-tx after the existence test; add/del/exist agree on box expansion")
	c.Run("delete", func() {
		del := c.Fn(tp + ".TxPool.delTx")
		idx := c.FieldVar(tp+".TxPool", "hashIndexMap")
		txs := c.FieldVar(tp+".TxPool", "txs")
		n := 0
		for _, ci := range core.AllCalls(del) {
			b, ok := ci.Common().Value.(*ssa.Builtin)
			if !ok || b.Name() != "delete" {
				continue
			}
			args := ci.Common().Args
			if !core.SliceHasField(core.Slice(args[0]), idx) {
				continue
			}
			n++
			// a lookup of the same key in the same map dominates it and its ok-result is heeded; a nil store into txs[looked-up index] dominates it
			okLookup, okClear := false, false
			for _, bb := range del.Blocks {
				for _, in := range bb.Instrs {
					lk, isLk := in.(*ssa.Lookup)
					if !isLk || !lk.CommaOk || !core.SliceHasField(core.Slice(lk.X), idx) || !sameKey(lk.Index, args[1]) {
						continue
					}
					var okv, idxv ssa.Value
					for _, r := range *lk.Referrers() {
						if e, isE := r.(*ssa.Extract); isE {
							if e.Index == 1 {
								okv = e
							} else {
								idxv = e
							}
						}
					}
					if okv == nil || idxv == nil {
						continue
					}
					if h, _ := core.ValueHeededBefore(lk, okv, core.IsFalse, ci); h {
						okLookup = true
					}
					// store nil into pool.txs[idxv]
					for _, b2 := range del.Blocks {
						for _, in2 := range b2.Instrs {
							st, isSt := in2.(*ssa.Store)
							if !isSt || !core.IsNilConst(st.Val) {
								continue
							}
							ia, isIA := st.Addr.(*ssa.IndexAddr)
							if !isIA || !core.SliceHasField(core.Slice(ia.X), txs) || !core.Slice(ia.Index)[idxv] {
								continue
							}
							if core.Dominates(st, ci) {
								okClear = true
							}
						}
					}
				}
			}
			k := string(rune('a' + n - 1))
			c.Check("delTx:delete-after-lookup#"+k, "guarded-action", okLookup, ci.Pos(), "delete(hashIndexMap, h) is preceded by a successful lookup of the same h")
			c.Check("delTx:delete-clears-slot#"+k, "paired-effect", okClear, ci.Pos(), "the slot pool.txs[index-of-h] is set to nil before the index entry of h is deleted")
		}
		c.Floor("delTx/deletes", n, 2)

		c18InsertAtomic(c)
		sub := c.FuncObj(tp + ".getSubTxs")
		for _, f := range []string{"delTx", "isTxExist"} {
			fn := c.Fn(tp + ".TxPool." + f)
			c.Check(f+"→getSubTxs", "sibling-agreement", len(core.CallsIn(fn, sub)) == 1, fn.Pos(), "%s expands the sub-txs of a box like its siblings", f)
		}
		// only a box has sub transactions: the data of an ordinary transaction is free text and may well parse as a box, so every expansion
		// is on the equal edge of `tx.Type() == BoxTx` for the expanded transaction (at the site, or inside getSubTxs before the decode)
		boxK := c.Const("chain/params.BoxTx")
		typeOf := c.Method("chain/types.Transaction", "Type")
		typedEdge := func(fn *ssa.Function, txv ssa.Value, at *ssa.BasicBlock) bool {
			for _, b := range fn.Blocks {
				ifi := ifOf(b)
				if ifi == nil {
					continue
				}
				bo, isB := ifi.Cond.(*ssa.BinOp)
				if !isB || (bo.Op != token.EQL && bo.Op != token.NEQ) {
					continue
				}
				var other ssa.Value
				switch {
				case constEquals(bo.X, boxK):
					other = bo.Y
				case constEquals(bo.Y, boxK):
					other = bo.X
				default:
					continue
				}
				g, isT := isCallOf(other, typeOf)
				if !isT || len(g.Common().Args) == 0 || !sameRead(g.Common().Args[0], txv) {
					continue
				}
				eq := b.Succs[0]
				if bo.Op == token.NEQ {
					eq = b.Succs[1]
				}
				if (eq == at || eq.Dominates(at)) && len(eq.Preds) == 1 {
					return true
				}
			}
			return false
		}
		subFn := c.Fn(tp + ".getSubTxs")
		inside := false
		for _, g := range core.CallsIn(subFn, c.FuncObj("chain/types.GetBox")) {
			if typedEdge(subFn, subFn.Params[0], g.Block()) {
				inside = true
			}
		}
		nExp := 0
		for _, s := range c.CallSites(sub) {
			if isTestHelper(c, s.Caller) {
				continue
			}
			nExp++
			a := s.Instr.Common().Args
			c.Check("getSubTxs:only-for-a-box@"+shortFn(s.Caller), "guarded-action", inside || (len(a) == 1 && typedEdge(s.Caller, a[0], s.Instr.Block())), s.Instr.Pos(), "the sub transactions of a transaction are looked at only when its type is BoxTx")
		}
		c.Floor("getSubTxs/sites", nExp, 4)
		// deleting a box removes its sub transactions whether or not the box itself is in this pool (it may have been packaged by another
		// miner): in delTx the expansion is skipped only for a nil transaction or a transaction that is not a box
		dfn := c.Fn(tp + ".TxPool.delTx")
		typeM := c.Method("chain/types.Transaction", "Type")
		for _, g := range core.CallsIn(dfn, sub) {
			onlyControlledBy(c, "delTx:getSubTxs/whatever-the-own-lookup-says", "removing the sub transactions of a deleted box", g, nil, func(ct core.Ctrl) bool {
				sl := core.SliceShallow(ct.If.Cond)
				if core.SliceHasCall(sl, typeM) {
					return true
				}
				// tx == nil
				if bo, ok := ct.If.Cond.(*ssa.BinOp); ok && (core.IsNilConst(bo.X) || core.IsNilConst(bo.Y)) {
					if bo.X == ssa.Value(dfn.Params[1]) || bo.Y == ssa.Value(dfn.Params[1]) {
						return true
					}
				}
				return false
			})
		}
	})

	c.Clause("C18.4", "fork switch: the old fork's txs are added before the new fork's are deleted; extending the fork deletes the new block's txs; a side-fork block's txs go to the pool")
	c.Run("fork-switch", func() {
		const cons = "chain/consensus"
		fn := c.Fn(cons + ".DPoVP.onCurrentChanged")
		addTxs := c.Method(tp+".TxPool", "AddTxs")
		delTxs := c.Method(tp+".TxPool", "DelTxs")
		byBranch := c.Method(tp+".TxGuard", "GetTxsByBranch")
		gb := core.CallsIn(fn, byBranch)
		adds, dels := core.CallsIn(fn, addTxs), core.CallsIn(fn, delTxs)
		ok := len(gb) == 1 && len(adds) == 1
		if ok {
			rs := core.ResultValues(gb[0])
			// AddTxs gets the first result (old fork), a DelTxs dominated by it gets the second (new fork)
			a := adds[0].Common().Args
			ok = rs[0] != nil && core.Slice(a[len(a)-1])[rs[0]]
			found := false
			for _, d := range dels {
				da := d.Common().Args
				// the WHOLE new-fork list: a filtered list would leave a tx that is on both forks in the pool
				if rs[1] != nil && (da[len(da)-1] == rs[1] || core.Derived(rs[1])[da[len(da)-1]]) {
					found = core.Dominates(adds[0], d)
				}
			}
			ok = ok && found
			// argument order of GetTxsByBranch: (oldCurrent, newCurrent)
			ga := gb[0].Common().Args
			ok = ok && ga[len(ga)-2] == fn.Params[1] && ga[len(ga)-1] == fn.Params[2]
		}
		c.Check("onCurrentChanged:AddTxs(old fork)≺DelTxs(new fork)", "order", ok, fn.Pos(), "on a fork switch the abandoned fork's txs enter the pool before ALL of the winning fork's txs (the unfiltered list) are removed")
		// extend branch: DelTxs(newCurrent.Txs)
		ok = false
		for _, d := range dels {
			da := d.Common().Args
			sl := core.Slice(da[len(da)-1])
			if sl[fn.Params[2]] && core.SliceHasField(sl, c.FieldVar("chain/types.Block", "Txs")) {
				ok = true
			}
		}
		c.Check("onCurrentChanged:extend→DelTxs(newCurrent.Txs)", "value-flow", ok, fn.Pos(), "when the fork is extended the new head's txs leave the pool")

		save := c.Fn(cons + ".DPoVP.saveNewBlock")
		uf := core.CallsIn(save, c.Method(cons+".ForkManager", "UpdateFork"))
		ok = len(uf) == 1
		if ok {
			ok = false
			occ := core.CallsIn(save, c.Method(cons+".DPoVP", "onCurrentChanged"))
			sideAdds := core.CallsIn(save, addTxs)
			for _, t := range core.TestsOf(uf[0].Value(), core.IsFalse) {
				// t.Fail = not changed edge → AddTxs(block.Txs); t.OK = changed → onCurrentChanged
				okA, okB := false, false
				for _, a := range sideAdds {
					if t.Fail == a.Block() || t.Fail.Dominates(a.Block()) {
						aa := a.Common().Args
						if core.Slice(aa[len(aa)-1])[save.Params[1]] {
							okA = true
						}
					}
				}
				for _, o := range occ {
					if t.OK == o.Block() || t.OK.Dominates(o.Block()) {
						okB = true
					}
				}
				if okA && okB {
					ok = true
				}
			}
		}
		c.Check("saveNewBlock:current-changed→onCurrentChanged,else→AddTxs(block.Txs)", "branch-shape", ok, save.Pos(), "a block that does not become the head returns its txs to the pool; one that does goes through onCurrentChanged")
		// what onCurrentChanged is told: the head as it was before the fork manager moved it and the head as it is afterwards — at every
		// site (a block-driven and a confirm-driven switch): old = CurrentBlock() read before UpdateFork/UpdateForkForConfirm, new =
		// CurrentBlock() read after it (the block that triggered the switch need not be the new head: its descendants' txs would stay pooled)
		cur := c.Method(cons+".DPoVP", "CurrentBlock")
		upd := []*types.Func{c.Method(cons+".ForkManager", "UpdateFork"), c.Method(cons+".ForkManager", "UpdateForkForConfirm")}
		nSites := 0
		for _, s := range c.CallSites(c.Method(cons+".DPoVP", "onCurrentChanged")) {
			if isTestHelper(c, s.Caller) {
				continue
			}
			nSites++
			a := s.Instr.Common().Args
			okOld, okNew := false, false
			if len(a) == 3 {
				us := core.CallsIn(s.Caller, upd...)
				for v := range core.SliceShallow(a[1]) {
					if g, is := isCallOf(v, cur); is {
						for _, u := range us {
							if core.Dominates(g, u) {
								okOld = true
							}
						}
					}
				}
				if g, is := isCallOf(a[2], cur); is {
					for _, u := range us {
						if core.Dominates(u, g) {
							okNew = true
						}
					}
				}
			}
			c.Check("onCurrentChanged(CurrentBlock-before,CurrentBlock-after)@"+shortFn(s.Caller), "value-flow", okOld && okNew, s.Instr.Pos(), "the pool is adjusted from the head before the fork update to the head after it")
		}
		c.Floor("onCurrentChanged/sites", nSites, 2)
	})

	c.Clause("C18.5", "txs that enter the pool from another fork are filtered against the current fork before they can be packaged")
	c.Run("foreign-fork-filter", func() {
		const cons = "chain/consensus"
		mine := c.Fn(cons + ".DPoVP.MineBlock")
		get := core.CallsIn(mine, c.Method(tp+".TxPool", "GetTxs"))
		am := core.CallsIn(mine, c.Method(cons+".BlockAssembler", "MineBlock"))
		existTx := c.Method(tp+".TxGuard", "ExistTx")
		ok := len(get) == 1 && len(am) == 1
		var filterFn *ssa.Function
		if ok {
			// the tx list given to the assembler is the result of a filter function that was given the pool's selection
			txArg := am[0].Common().Args[2]
			ok = false
			for v := range core.Slice(txArg) {
				ci, isCall := v.(*ssa.Call)
				if !isCall || ci == get[0] {
					continue
				}
				callee := core.StaticFn(ci)
				if callee == nil || !core.InRepo(callee) {
					continue
				}
				if len(core.CallsIn(callee, existTx, c.Method(tp+".TxGuard", "ExistTxs"))) > 0 {
					for _, a := range ci.Common().Args {
						if core.Slice(a)[get[0].Value()] {
							ok = true
							filterFn = callee
						}
					}
				}
			}
			if core.Slice(txArg)[get[0].Value()] && filterFn == nil {
				ok = false
			}
			// the filter written out inside MineBlock: the list handed to the assembler is built by appends that are all on the
			// not-existing edge of ExistTx(parentHeader.Hash(), tx)
			if filterFn == nil && len(core.CallsIn(mine, existTx)) > 0 {
				var keep []ssa.Instruction
				direct := false
				for v := range core.SliceShallow(txArg) {
					if ci, isCall := v.(*ssa.Call); isCall {
						if b, isB := ci.Common().Value.(*ssa.Builtin); isB && b.Name() == "append" {
							keep = append(keep, ci)
						}
					}
				}
				// the pool's selection itself must not reach the assembler around the appends (through assignments / phis only)
				var viaPhi func(v ssa.Value, d int) bool
				viaPhi = func(v ssa.Value, d int) bool {
					if v == get[0].Value() {
						return true
					}
					if ph, isPhi := v.(*ssa.Phi); isPhi && d < 6 {
						for _, e := range ph.Edges {
							if viaPhi(e, d+1) {
								return true
							}
						}
					}
					return false
				}
				direct = viaPhi(txArg, 0)
				if len(keep) > 0 && !direct {
					ok = true
					heededBefore(c, mine, existTx, core.IsTrue, "append(unpackaged,tx)", keep)
					ph := c.Method("chain/types.Header", "Hash")
					for _, g := range core.CallsIn(mine, existTx) {
						a := g.Common().Args
						c.Check("MineBlock:ExistTx(parentHeader.Hash(),·)", "value-flow", len(a) == 3 && core.SliceHasCall(core.Slice(a[1]), ph), g.Pos(), "the filter tests against the fork of the parent the block is built on")
					}
				}
			}
		}
		c.Check("MineBlock:GetTxs→replay-filter→assembler.MineBlock", "value-flow", ok, mine.Pos(), "the miner packages only what passed a TxGuard.ExistTx filter against its parent")
		if filterFn != nil {
			// in the filter every append to the returned list is on the !ExistTx edge
			var keep []ssa.Instruction
			for _, r := range core.Returns(filterFn) {
				sl := core.Slice(core.RetVal(r, 0))
				for v := range sl {
					if ci, isCall := v.(*ssa.Call); isCall {
						if b, isB := ci.Common().Value.(*ssa.Builtin); isB && b.Name() == "append" {
							keep = append(keep, ci)
						}
					}
				}
			}
			c.Floor("filter/appends-to-result", len(keep), 1)
			heededBefore(c, filterFn, existTx, core.IsTrue, "append(result,tx)", keep)
			for _, g := range core.CallsIn(filterFn, existTx) {
				a := g.Common().Args
				c.Check("filter:ExistTx(parentHash,·)", "value-flow", len(a) == 3 && a[1] == filterFn.Params[1], g.Pos(), "the filter tests against the fork the caller names")
			}
			for _, ci := range core.CallsIn(mine, filterFn.Object().(*types.Func)) {
				a := ci.Common().Args
				ph := c.Method("chain/types.Header", "Hash")
				c.Check("MineBlock:filter(parentHeader.Hash())", "value-flow", len(a) >= 2 && core.SliceHasCall(core.Slice(a[1]), ph), ci.Pos(), "the fork is named by the hash of the parent header the block is built on")
			}
		}
	})

	c.Clause("C18.6", "what is indexed like the slot list is reset like the slot list: a slice field of the pool that some function indexes with the very index it uses for TxPool.txs is a parallel structure; every function that replaces txs (growth, the reset when the pool runs empty) replaces it too — otherwise the two are shifted against each other and a transaction is judged by a slot that belongs to another one")
	c.Run("parallel-fields", func() {
		pst := c.Struct(tp + ".TxPool")
		txsF := c.FieldVar(tp+".TxPool", "txs")
		isPoolSlice := map[*types.Var]bool{}
		for i := 0; i < pst.NumFields(); i++ {
			if _, ok := pst.Field(i).Type().Underlying().(*types.Slice); ok && pst.Field(i) != txsF {
				isPoolSlice[pst.Field(i)] = true
			}
		}
		fieldOfSlice := func(v ssa.Value) *types.Var {
			if ld, ok := v.(*ssa.UnOp); ok && ld.Op == token.MUL {
				return core.FieldOf(ld.X)
			}
			return nil
		}
		parallel := map[*types.Var]*ssa.Function{}
		var pkgFns []*ssa.Function
		for _, fn := range c.SrcFuncs {
			if core.RelPkg(fn) != tp || isTestHelper(c, fn) {
				continue
			}
			pkgFns = append(pkgFns, fn)
			idxOfTxs := map[ssa.Value]bool{}
			var others []*ssa.IndexAddr
			for _, b := range fn.Blocks {
				for _, in := range b.Instrs {
					ia, ok := in.(*ssa.IndexAddr)
					if !ok {
						continue
					}
					switch f := fieldOfSlice(ia.X); {
					case f == txsF:
						idxOfTxs[ia.Index] = true
					case f != nil && isPoolSlice[f]:
						others = append(others, ia)
					}
				}
			}
			for _, ia := range others {
				if idxOfTxs[ia.Index] {
					parallel[fieldOfSlice(ia.X)] = fn
				}
			}
		}
		// every function that stores txs stores the parallel fields
		nRepl := 0
		for _, fn := range pkgFns {
			if len(storesToO8(fn, txsF)) == 0 {
				continue
			}
			// appends that grow txs by one element are co-updates too; what matters is that the function touches the parallel field at all
			nRepl++
			for f, where := range parallel {
				c.Check("parallel/"+f.Name()+"@"+shortFn(fn), "paired-write", len(storesToO8(fn, f)) > 0, fn.Pos(), "%s replaces TxPool.txs; TxPool.%s is indexed in step with txs (in %s) and must be replaced with it", shortFn(fn), f.Name(), shortFn(where))
			}
		}
		c.Floor("txs-replacing-functions", nRepl, 2)
		c.Note("slice fields of TxPool indexed in step with txs: %d", len(parallel))
	})

	c.Clause("C18.7", "known means indexed, and the guard outlives the fix-up: isTxExist (with its private helpers) reads the index and not the slot list; in saveNewBlock and InsertConfirms nothing that leads to TxGuard.DelOldBlocks can still be followed by the fork update")
	c.Run("exist-from-index-only", func() { c18ExistFromIndexOnly(c) })
	c.Run("guard-expiry-after-pool-fixup", func() { c18GuardExpiryAfterPoolFixup(c) })

	c.Clause("C18.8", "a slot keeps its number while the index names it: every store to TxPool.txs either appends to the current list, installs a fresh list exactly as long as the current one (growth), or sits in a function that installs a fresh index map as well (constructor, reset when the pool runs empty); no store re-slices or shortens the list, because released (nil) slots are still named by the index entries of a box and its remaining sub transactions")
	c.Run("slots-stable", func() { c18SlotsStable(c) })

	c.NotDecidedf("set semantics under interleavings (linearizability of AddTx/GetTxs/DelTxs), loss of sibling sub-txs when one sub-tx is deleted (documented in the code), capacity arithmetic")
}

// sameKey: two map keys are the same SSA value (possibly through a local cell).
func sameKey(a, b ssa.Value) bool {
	return a == b || core.Derived(a)[b] || core.Derived(b)[a] || (core.Slice(a)[b] && core.Slice(b)[a])
}

// sharesElement: both values are loads of the same range element.
func sharesElement(a, b ssa.Value) bool {
	sa, sb := core.Slice(a), core.Slice(b)
	for v := range sa {
		if _, ok := v.(*ssa.Next); ok && sb[v] {
			return true
		}
		if ia, ok := v.(*ssa.IndexAddr); ok && sb[ia] {
			return true
		}
	}
	return false
}

type anyGuard struct {
	ifi       *ssa.If
	nilTestOf ssa.Value
	nilSucc   *ssa.BasicBlock // successor taken when the value is nil
}

// condGuardsAny lists nil tests (v == nil / v != nil) of a function with the successor taken on nil.
func condGuardsAny(fn *ssa.Function) []anyGuard {
	var out []anyGuard
	for _, b := range fn.Blocks {
		ifi, ok := b.Instrs[len(b.Instrs)-1].(*ssa.If)
		if !ok {
			continue
		}
		bo, ok := ifi.Cond.(*ssa.BinOp)
		if !ok || (bo.Op != token.EQL && bo.Op != token.NEQ) {
			continue
		}
		v := bo.X
		if core.IsNilConst(bo.X) {
			v = bo.Y
		} else if !core.IsNilConst(bo.Y) {
			continue
		}
		ns := b.Succs[0]
		if bo.Op == token.NEQ {
			ns = b.Succs[1]
		}
		out = append(out, anyGuard{ifi, v, ns})
	}
	return out
}

// guards: the nil edge cannot reach the action without re-evaluating the test.
func (g anyGuard) guards(action ssa.Instruction) bool {
	b := g.ifi.Block()
	if !b.Dominates(action.Block()) || b == action.Block() {
		return false
	}
	return !core.CanReach(g.nilSucc, action.Block(), b)
}

// c18InsertAtomic: index inserts happen under the same hold of the pool's mutex as the existence test, and every indexer expands boxes.
// Evaluated under C18.3 and C20.6 (a transaction gossiped by several peers at once enters the pool once).
func c18InsertAtomic(c *core.Ctx) {
	const tp = "chain/txpool"
	idx := c.FieldVar(tp+".TxPool", "hashIndexMap")
	txs := c.FieldVar(tp+".TxPool", "txs")
	// add: whoever inserts into the index does it for a transaction that was tested not to be there, under the same hold of the pool's
	// mutex as the test, and indexes the sub transactions of a box as well. The insert may live in addTx or in a helper split off it.
	exist := c.Method(tp+".TxPool", "isTxExist")
	sub := c.FuncObj(tp + ".getSubTxs")
	rwF := c.FieldVar(tp+".TxPool", "RW")
	isUnlock := func(in ssa.Instruction) bool {
		ci, ok := in.(*ssa.Call)
		if !ok {
			return false
		}
		o := core.CalleeObj(ci)
		if o == nil || (o.Name() != "Unlock" && o.Name() != "RUnlock") || len(ci.Call.Args) == 0 {
			return false
		}
		return core.SliceHasField(core.Slice(ci.Call.Args[0]), rwF)
	}
	unlockBetween := func(from, to ssa.Instruction) bool {
		fn := from.Parent()
		for _, bb := range fn.Blocks {
			for _, in := range bb.Instrs {
				if isUnlock(in) && core.ReachableAfter(from, in) && core.ReachableAfter(in, to) {
					return true
				}
			}
		}
		return false
	}
	// guardedAt: on every path to `at` in its function an accepting isTxExist ran and the mutex was not released since; when the
	// function holds no such test, every caller must provide it before the call (depth-bounded)
	var guardedAt func(at ssa.Instruction, depth int) (bool, string)
	guardedAt = func(at ssa.Instruction, depth int) (bool, string) {
		fn := at.Parent()
		why := "no existence test on the way"
		for _, g := range core.CallsIn(fn, exist) {
			if h, w := core.HeededBefore(g, core.IsTrue, at); h {
				if unlockBetween(g, at) {
					return false, "the pool's mutex is released between the existence test and the insert (another goroutine can insert the same transaction in between)"
				}
				return true, ""
			} else {
				why = w
			}
		}
		fo, _ := fn.Object().(*types.Func)
		if fo == nil || depth >= 2 {
			return false, why
		}
		_, sites := callersOf(c, fo)
		if len(sites) == 0 {
			return false, why
		}
		for _, cs := range sites {
			if ok, w := guardedAt(cs.Instr, depth+1); !ok {
				return false, shortFn(cs.Caller) + ": " + w
			}
		}
		return true, ""
	}
	nIns := 0
	for _, fn := range c.SrcFuncs {
		if core.RelPkg(fn) != tp || isTestHelper(c, fn) {
			continue
		}
		var stores []ssa.Instruction
		for _, b := range fn.Blocks {
			for _, in := range b.Instrs {
				if mu, ok := in.(*ssa.MapUpdate); ok && core.SliceHasField(core.Slice(mu.Map), idx) {
					stores = append(stores, mu)
				}
			}
		}
		if len(stores) == 0 {
			continue
		}
		nIns += len(stores)
		name := shortFn(fn)
		ok, why := true, ""
		for _, st := range stores {
			// re-indexing what the pool already holds (a key computed from an element of pool.txs, not from a parameter) is not an add
			ksl := core.Slice(st.(*ssa.MapUpdate).Key)
			fromParam := false
			for _, q := range fn.Params[1:] {
				if ksl[q] {
					fromParam = true
				}
			}
			if !fromParam && core.SliceHasField(ksl, txs) {
				continue
			}
			if g, w := guardedAt(st, 0); !g {
				ok, why = false, w
			}
		}
		c.Check("index-insert@"+name+":after-existence-test-under-one-hold", "guarded-action", ok, stores[0].Pos(), "%s inserts into hashIndexMap; every path to the insert passes an accepting isTxExist with the pool's mutex held since: %s", name, orOK(why))
		c.Check("index-insert@"+name+":expands-box", "sibling-agreement", len(core.CallsIn(fn, sub)) >= 1, fn.Pos(), "%s indexes a transaction; it must index the sub transactions of a box too (getSubTxs), as delTx and isTxExist look them up", name)
	}
	c.Floor("index-inserts", nIns, 2)
}

// c18SlotsStable: C18.8. The slot list is append-only between two resets of the index.
func c18SlotsStable(c *core.Ctx) {
	const tp = "chain/txpool"
	txsF := c.FieldVar(tp+".TxPool", "txs")
	idxF := c.FieldVar(tp+".TxPool", "hashIndexMap")
	loadOfTxs := func(v ssa.Value) bool {
		ld, ok := v.(*ssa.UnOp)
		return ok && ld.Op == token.MUL && core.FieldOf(ld.X) == txsF
	}
	isLenOfTxs := func(v ssa.Value) bool {
		if cv, ok := v.(*ssa.Convert); ok {
			v = cv.X
		}
		call, ok := v.(*ssa.Call)
		if !ok {
			return false
		}
		b, ok := call.Call.Value.(*ssa.Builtin)
		return ok && b.Name() == "len" && len(call.Call.Args) == 1 && loadOfTxs(call.Call.Args[0])
	}
	n := 0
	for _, fn := range c.SrcFuncs {
		if core.RelPkg(fn) != tp || isTestHelper(c, fn) {
			continue
		}
		stores := storesToO8(fn, txsF)
		if len(stores) == 0 {
			continue
		}
		resetsIndex := false
		for _, st := range storesToO8(fn, idxF) {
			if _, ok := st.Val.(*ssa.MakeMap); ok {
				resetsIndex = true
			}
		}
		for i, st := range stores {
			n++
			ok, why := false, ""
			switch v := st.Val.(type) {
			case *ssa.Call:
				if b, isB := v.Call.Value.(*ssa.Builtin); isB && b.Name() == "append" && len(v.Call.Args) >= 1 && loadOfTxs(v.Call.Args[0]) {
					ok = true
				} else if isB && b.Name() == "append" && len(v.Call.Args) == 2 && loadOfTxs(v.Call.Args[1]) {
					// growth written as append(make(T, 0, cap), pool.txs...): a whole copy, every slot keeps its number
					if mk, isMk := v.Call.Args[0].(*ssa.MakeSlice); isMk {
						if n, isC := core.IntConstVal(mk.Len); isC && n == 0 {
							ok = true
						}
					}
					if !ok {
						why = "the current list is appended to something that is not an empty fresh list"
					}
				} else {
					why = "the stored list is the result of a call that is not append(pool.txs, …)"
				}
			case *ssa.MakeSlice:
				switch {
				case resetsIndex:
					ok = true
				case isLenOfTxs(v.Len):
					ok = true
				default:
					why = "a fresh list whose length is not len(pool.txs) is installed and the index map is kept"
				}
			case *ssa.Slice:
				why = "the list is re-sliced in place while the index map is kept"
				if resetsIndex {
					ok, why = true, ""
				}
			default:
				why = fmt.Sprintf("the stored value has a form the rule does not know (%T)", st.Val)
				if resetsIndex {
					ok, why = true, ""
				}
			}
			c.Check(fmt.Sprintf("slots-stable@%s#%d", shortFn(fn), i), "typestate", ok, st.Pos(), "%s stores TxPool.txs; slot numbers held in hashIndexMap stay valid only if the store appends, grows to the same length, or resets the index too: %s", shortFn(fn), orOK(why))
		}
	}
	c.Floor("stores-of-txs", n, 4)
}
