package rules

import (
	"go/types"
	"sort"
	"strings"

	"verif/lint/internal/core"
)

func init() { register("C07", c07) }

func c07(c *core.Ctx) {
	ea := core.NewEffectAnalysis(c.Program, "chain/account", "chain/types", "math/big")
	c.Clause("C07.dbg", "debug")
	c.Run("dbg", func() {
		acc := c.Named("chain/account.Account")
		ms := types.NewMethodSet(types.NewPointer(acc))
		for i := 0; i < ms.Len(); i++ {
			f := ms.At(i).Obj().(*types.Func)
			fn := c.FuncOf(f)
			if fn == nil || fn.Blocks == nil {
				continue
			}
			w := ea.Of(fn, core.Binding{}).WritesOn("account.Account")
			ks := core.SortedKeys(w)
			c.Note("%s: %s", f.Name(), strings.Join(ks, ", "))
		}
		sort.Strings(c.Notes)
		for _, n := range c.Notes {
			println(n)
		}
	})
}
