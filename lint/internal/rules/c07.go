package rules

import (
	"go/constant"
	"go/token"
	"go/types"
	"sort"
	"strings"

	"golang.org/x/tools/go/ssa"

	"verif/lint/internal/core"
)

func init() { register("C07", c07) }

const accPkg = "chain/account"

// logType describes one change-log type as found in the program.
type logType struct {
	name   string
	val    int64
	ctor   *ssa.Function   // NewXLog
	redo   *ssa.Function   // registered redo
	undo   *ssa.Function   // registered undo
	setter []*ssa.Function // SafeAccount methods that create this log
}

func unwrapFn(v ssa.Value) *ssa.Function {
	for {
		switch x := v.(type) {
		case *ssa.Function:
			return x
		case *ssa.ChangeType:
			v = x.X
		case *ssa.MakeClosure:
			if f, ok := x.Fn.(*ssa.Function); ok {
				return f
			}
			return nil
		default:
			return nil
		}
	}
}

// cacheFill: locations that only memoise what is on disk (written by getters as well); not account state.
func cacheFill(loc string) bool {
	for _, s := range []string{".cached.[]", ".trie", ".trieDb"} {
		if strings.HasSuffix(loc, s) {
			return true
		}
	}
	return false
}

func collectLogTypes(c *core.Ctx) map[int64]*logType {
	out := map[int64]*logType{}
	clt := c.Named("chain/types.ChangeLogType")
	stop, _ := constInt(c.Const(accPkg + ".LOG_TYPE_STOP"))
	sc := c.Pkg(accPkg).Scope()
	for _, n := range sc.Names() {
		k, ok := sc.Lookup(n).(*types.Const)
		if !ok || !types.Identical(k.Type(), clt) {
			continue
		}
		v, _ := constInt(k)
		if v <= 0 || v >= stop {
			continue
		}
		out[v] = &logType{name: n, val: v}
	}
	// registry
	reg := c.FuncObj("chain/types.RegisterChangeLog")
	for _, s := range c.CallSites(reg) {
		if core.RelPkg(s.Caller) != accPkg {
			continue
		}
		a := s.Instr.Common().Args
		k, ok := a[0].(*ssa.Const)
		if !ok {
			continue
		}
		v, _ := constant.Int64Val(constant.ToInt(k.Value))
		lt := out[v]
		if lt == nil {
			continue
		}
		lt.redo, lt.undo = unwrapFn(a[4]), unwrapFn(a[5])
	}
	// constructors: functions of the package that store a constant into ChangeLog.LogType
	ltField := c.FieldVar("chain/types.ChangeLog", "LogType")
	for _, fn := range c.SrcFuncs {
		if core.RelPkg(fn) != accPkg || fn.Parent() != nil || isTestHelper(c, fn) {
			continue
		}
		for _, b := range fn.Blocks {
			for _, in := range b.Instrs {
				st, ok := in.(*ssa.Store)
				if !ok || core.FieldOf(st.Addr) != ltField {
					continue
				}
				k, ok := st.Val.(*ssa.Const)
				if !ok {
					continue
				}
				v, _ := constant.Int64Val(constant.ToInt(k.Value))
				if lt := out[v]; lt != nil && lt.ctor == nil {
					lt.ctor = fn
				}
			}
		}
	}
	// setters: SafeAccount methods calling a constructor
	safe := c.Named(accPkg + ".SafeAccount")
	ms := types.NewMethodSet(types.NewPointer(safe))
	for i := 0; i < ms.Len(); i++ {
		fn := c.FuncOf(ms.At(i).Obj().(*types.Func))
		if fn == nil || fn.Blocks == nil {
			continue
		}
		for _, lt := range out {
			if lt.ctor == nil {
				continue
			}
			if len(core.CallsIn(fn, lt.ctor.Object().(*types.Func))) > 0 {
				lt.setter = append(lt.setter, fn)
			}
		}
	}
	return out
}

func c07(c *core.Ctx) {
	ea := core.NewEffectAnalysis(c.Program, accPkg, "chain/types", "math/big")
	lpBinding := func() core.Binding {
		return core.Binding{Types: map[int]types.Type{1: types.NewPointer(c.Named(accPkg + ".LogProcessor"))}}
	}
	accName := "account.Account"
	var lts map[int64]*logType
	var order []int64
	c.Clause("C07.3", "registry exhaustive: every change-log type below LOG_TYPE_STOP is registered with decoder pair, redo and undo, and has a constructor and a journalling setter")
	c.Run("registry", func() {
		lts = collectLogTypes(c)
		for v := range lts {
			order = append(order, v)
		}
		sort.Slice(order, func(i, j int) bool { return order[i] < order[j] })
		rootTypes := map[string]bool{"StorageRootLog": true, "AssetCodeRootLog": true, "AssetIdRootLog": true, "EquityRootLog": true}
		for _, v := range order {
			lt := lts[v]
			c.Check("registered/"+lt.name, "registry", lt.redo != nil && lt.undo != nil, token.NoPos, "%s is registered with a redo and an undo function", lt.name)
			c.Check("constructor/"+lt.name, "registry", lt.ctor != nil, token.NoPos, "%s has a constructor that stamps the type", lt.name)
			if rootTypes[lt.name] {
				// root logs are pushed by Manager.Finalise next to rawAccount.Finalise (checked in C07.1)
				continue
			}
			c.Check("setter/"+lt.name, "registry", len(lt.setter) >= 1, token.NoPos, "%s has a SafeAccount setter that journals it", lt.name)
		}
		c.Floor("log-types", len(order), 19)
		// decoders non-nil: arguments 2 and 3 are functions
		reg := c.FuncObj("chain/types.RegisterChangeLog")
		n := 0
		for _, s := range c.CallSites(reg) {
			if core.RelPkg(s.Caller) != accPkg {
				continue
			}
			a := s.Instr.Common().Args
			n++
			ok := unwrapFn(a[2]) != nil && unwrapFn(a[3]) != nil && unwrapFn(a[4]) != nil && unwrapFn(a[5]) != nil
			nm := "?"
			if k, isC := a[0].(*ssa.Const); isC {
				v, _ := constant.Int64Val(constant.ToInt(k.Value))
				if lt := lts[v]; lt != nil {
					nm = lt.name
				}
			}
			c.CheckTrivial("decoders/"+nm, "registry", ok, s.Instr.Pos(), "both decoders, redo and undo of %s are functions (not nil)", nm)
		}
		c.Floor("register-calls", n, 19)
	})
	if lts == nil {
		return
	}

	// raw mutators of *Account by write set
	acc := c.Named(accPkg + ".Account")
	mutator := map[*types.Func]map[string]bool{}
	c.Run("mutators", func() {
		ms := types.NewMethodSet(types.NewPointer(acc))
		for i := 0; i < ms.Len(); i++ {
			f := ms.At(i).Obj().(*types.Func)
			fn := c.FuncOf(f)
			if fn == nil || fn.Blocks == nil {
				continue
			}
			w := ea.Of(fn, core.Binding{}).WritesOn(accName)
			state := map[string]bool{}
			for loc := range w {
				if !cacheFill(loc) && loc != "code" && loc != "newestRecords.[]" {
					state[loc] = true
				}
			}
			if w["code"] && len(state) > 0 {
				state["code"] = true
			}
			if len(state) > 0 {
				mutator[f] = state
			}
		}
	})

	c.Clause("C07.1", "journal-before-write: in every SafeAccount method each call of a raw *Account mutator (a method with a non-empty state write set) is preceded on all paths by PushChangeLog; the four root logs are pushed next to rawAccount.Finalise")
	c.Run("journal-before-write", func() {
		push := c.Method(accPkg+".LogProcessor", "PushChangeLog")
		safe := c.Named(accPkg + ".SafeAccount")
		ms := types.NewMethodSet(types.NewPointer(safe))
		n := 0
		for i := 0; i < ms.Len(); i++ {
			f := ms.At(i).Obj().(*types.Func)
			fn := c.FuncOf(f)
			if fn == nil || fn.Blocks == nil {
				continue
			}
			for _, ci := range core.AllCalls(fn) {
				o := core.CalleeObj(ci)
				if o == nil || mutator[o] == nil {
					continue
				}
				n++
				ok := false
				var pushed ssa.CallInstruction
				for _, p := range performsCalls(fn, push, 2) {
					if core.Dominates(p, ci) {
						ok = true
						pushed = p
					}
				}
				key := "SafeAccount." + f.Name() + "→Account." + o.Name()
				if f.Name() == "PopEvent" && o.Name() == "PopEvent" {
					// raw pass-through kept for the commented-out undo: must be unreachable (checked in C07.2)
					c.CheckTrivial(key, "journal-before-write", true, ci.Pos(), "raw pass-through, exempt: it has no caller (C07.2 checks that)")
					continue
				}
				c.Check(key, "journal-before-write", ok, ci.Pos(), "SafeAccount.%s must push a change log before it calls the raw mutator %s", f.Name(), o.Name())
				// the pushed log is made by a constructor
				if pushed != nil && core.SameFamily(core.CalleeObj(pushed), push) {
					made := false
					for v := range core.Slice(pushed.Common().Args[len(pushed.Common().Args)-1]) {
						if call, isCall := v.(*ssa.Call); isCall {
							if cal := core.StaticFn(call); cal != nil {
								for _, lt := range lts {
									if lt.ctor == cal {
										made = true
									}
								}
							}
						}
					}
					c.Check(key+":log-from-constructor", "journal-before-write", made, pushed.Pos(), "the journalled log comes from a NewXLog constructor")
				}
			}
		}
		c.Floor("safe-setter-raw-calls", n, 15)
		// a constructed log is always pushed: the constructor takes a provisional version from the account, so dropping the log afterwards
		// leaves a gap in the journal's version sequence and the continuity check of RevertToSnapshot panics
		nc := 0
		for i := 0; i < ms.Len(); i++ {
			f := ms.At(i).Obj().(*types.Func)
			fn := c.FuncOf(f)
			if fn == nil || fn.Blocks == nil {
				continue
			}
			for _, lt := range lts {
				if lt.ctor == nil {
					continue
				}
				for _, cc := range core.CallsIn(fn, lt.ctor.Object().(*types.Func)) {
					nc++
					var avoid []*ssa.BasicBlock
					for _, p := range performsCalls(fn, push, 2) {
						avoid = append(avoid, p.Block())
					}
					ev := core.ErrResult(cc)
					var fv map[ssa.Value]bool
					if ev != nil {
						fv = core.Derived(ev)
					}
					ok := true
					for _, r := range core.Returns(fn) {
						if in(avoid, r.Block()) && r.Block() != cc.Block() {
							continue
						}
						reach := r.Block() == cc.Block() && !in(avoid, cc.Block())
						for _, sb := range cc.Block().Succs {
							if sb == r.Block() && !in(avoid, sb) || core.CanReach(sb, r.Block(), avoid...) {
								reach = true
							}
						}
						if !reach {
							continue
						}
						// reached without a push: only the constructor's own failure may leave this way
						if ev == nil || core.ClassifyReturn(r, fv, nil) != core.RetFailure || !core.KnownNonNilAt(ev, r.Block()) {
							ok = false
						}
					}
					c.Check("SafeAccount."+f.Name()+":"+lt.name+"-constructed⇒pushed", "journal-before-write", ok, cc.Pos(), "after SafeAccount.%s made a %s (which takes a provisional version) every path to a return pushes it; only the constructor's own error may leave without", f.Name(), lt.name)
				}
			}
		}
		c.Floor("constructor-calls-in-setters", nc, 15)
		// Manager.Finalise: pushes root logs
		fin := c.Fn(accPkg + ".Manager.Finalise")
		rf := core.CallsInDeep(fin, c.Method(accPkg+".Account", "Finalise"))
		c.Check("Manager.Finalise→rawAccount.Finalise", "must-call", len(rf) >= 1, fin.Pos(), "Manager.Finalise finalises the raw accounts")
		nroot := 0
		for _, nm := range []string{"StorageRootLog", "AssetCodeRootLog", "AssetIdRootLog", "EquityRootLog"} {
			for _, lt := range lts {
				if lt.name == nm && lt.ctor != nil {
					calls := core.CallsInDeep(fin, lt.ctor.Object().(*types.Func))
					if len(calls) == 0 {
						// maybe inside a helper of the same package
						for _, ci := range core.AllCalls(fin) {
							if h := core.StaticFn(ci); h != nil && core.RelPkg(h) == accPkg {
								calls = append(calls, core.CallsInDeep(h, lt.ctor.Object().(*types.Func))...)
							}
						}
					}
					if c.Check("Manager.Finalise→"+nm, "must-call", len(calls) >= 1, fin.Pos(), "the root change log %s is created during Finalise", nm) {
						nroot++
					}
				}
			}
		}
		c.Floor("root-logs", nroot, 4)
	})

	c.Clause("C07.2", "raw mutators are unreachable from execution code: they are called only inside package account; accounts handed out are SafeAccounts; nobody outside asserts an accessor to *Account; the raw PopEvent pass-through has no caller")
	c.Run("raw-unreachable", func() {
		var muts []*types.Func
		for m := range mutator {
			muts = append(muts, m)
		}
		n := 0
		for _, s := range c.CallSites(muts...) {
			if isTestHelper(c, s.Caller) {
				continue
			}
			// only direct calls on *Account count here (interface calls resolve to what Manager hands out, checked below)
			if s.Instr.Common().IsInvoke() {
				continue
			}
			o := core.CalleeObj(s.Instr)
			if recvNamed(o) != acc.Obj() {
				continue
			}
			n++
			c.Check("raw-call@"+shortFn(core.Outer(s.Caller)), "who-may-call", core.RelPkg(s.Caller) == accPkg, s.Instr.Pos(), "raw mutator Account.%s is called from %s, outside package account", o.Name(), shortFn(s.Caller))
		}
		c.Floor("raw-call-sites", n, 27)
		// type assertions to *Account outside the package
		bad := 0
		scanned := 0
		for _, fn := range c.SrcFuncs {
			rel := core.RelPkg(fn)
			if rel == accPkg || isTestHelper(c, fn) {
				continue
			}
			for _, b := range fn.Blocks {
				for _, in := range b.Instrs {
					scanned++
					if ta, ok := in.(*ssa.TypeAssert); ok {
						if p, isP := ta.AssertedType.(*types.Pointer); isP {
							if nn, isN := p.Elem().(*types.Named); isN && nn.Obj() == acc.Obj() {
								bad++
								c.Check("assert-to-raw@"+shortFn(fn), "who-may-call", false, ta.Pos(), "%s asserts an account accessor to *account.Account and so escapes the journal", shortFn(fn))
							}
						}
					}
				}
			}
		}
		c.Check("assert-to-raw/scan", "who-may-call", bad == 0 && scanned > 10000, token.NoPos, "no type assertion to *account.Account outside package account (%d instructions scanned)", scanned)
		// Manager.GetAccount hands out *SafeAccount
		ga := c.Fn(accPkg + ".Manager.GetAccount")
		okRet := true
		nret := 0
		for _, r := range core.Returns(ga) {
			v := core.RetVal(r, 0)
			for x := range core.Slice(v) {
				if mi, isMI := x.(*ssa.MakeInterface); isMI && types.IsInterface(mi.Type()) {
					nret++
					if namedPtr(mi.X.Type()) != "SafeAccount" {
						okRet = false
					}
				}
			}
		}
		c.Check("Manager.GetAccount:returns-SafeAccount", "value-flow", okRet && nret >= 1, ga.Pos(), "every accessor handed out by Manager.GetAccount is a journalling SafeAccount (%d conversions)", nret)
		// PopEvent pass-through: no caller; positive control: PushEvent has callers
		pop := c.Method(accPkg+".SafeAccount", "PopEvent")
		popI := c.Method("chain/types.AccountAccessor", "PopEvent")
		npop := 0
		for _, s := range c.CallSites(pop, popI) {
			if isTestHelper(c, s.Caller) {
				continue
			}
			// the pass-through itself calls the raw method
			if s.Caller == c.FuncOf(pop) {
				continue
			}
			npop++
		}
		_, pushSites := callersOf(c, c.Method("chain/types.AccountAccessor", "PushEvent"))
		c.Check("PopEvent:no-caller", "who-may-call", npop == 0 && len(pushSites) > 0, token.NoPos, "the un-journalled PopEvent has %d callers (PushEvent, the positive control, has %d)", npop, len(pushSites))
	})

	c.Clause("C07.4", "undo covers do: every account-state location a journalling setter writes is written by the registered undo of its log type (or by RevertToSnapshot itself); redo writes what the setter writes")
	c.Run("undo-covers-do", func() {
		rev := c.Fn(accPkg + ".LogProcessor.RevertToSnapshot")
		own := ea.Of(rev, core.Binding{}).WritesOn(accName)
		c.Check("RevertToSnapshot:restores-provisional-version", "effects", own["newestRecords.[]"], rev.Pos(), "RevertToSnapshot gives the provisional version counter back (own account writes: %v)", core.SortedKeys(own))
		exempt := map[string]string{
			"AddEventLog#events":            "the in-memory event list has no reader outside package account (checked: GetEvents has no caller); the published trace is the AddEventLog entry, which RevertToSnapshot truncates",
			"SuicideLog#data.AssetCodeRoot": "only contract accounts self-destruct and only key-holding senders issue assets, so the asset roots of a self-destructing account are already empty",
			"SuicideLog#data.AssetIdRoot":   "same as AssetCodeRoot",
			"SuicideLog#assetCode.dirty":    "cache of the (empty) asset-code trie of a contract account",
			"SuicideLog#assetId.dirty":      "cache of the (empty) asset-id trie of a contract account",
			"SuicideLog#assetCode.cached":   "cache reset only",
			"SuicideLog#assetId.cached":     "cache reset only",
			"SuicideLog#assetCode.trie":     "cache reset only",
			"SuicideLog#assetId.trie":       "cache reset only",
		}
		nT := 0
		for _, v := range order {
			lt := lts[v]
			if lt.undo == nil || len(lt.setter) == 0 {
				continue
			}
			nT++
			wu := ea.Of(lt.undo, lpBinding())
			undoW := wu.WritesOn(accName)
			wr := ea.Of(lt.redo, lpBinding())
			redoW := wr.WritesOn(accName)
			for _, u := range append(wu.Unresolved, wr.Unresolved...) {
				c.Undecided("unresolved/"+lt.name, "effects", lt.undo.Pos(), "interface call not resolved under the LogProcessor binding: %s", u)
			}
			for _, st := range lt.setter {
				do := ea.Of(st, core.Binding{}).WritesOn(accName)
				for loc := range do {
					if cacheFill(loc) {
						continue
					}
					key := lt.name + "#" + loc
					if loc == "newestRecords.[]" {
						c.Check("undo/"+key, "effects", own[loc], st.Pos(), "the provisional version bumped while journalling %s is restored by RevertToSnapshot", lt.name)
						continue
					}
					if reason, ok := exempt[key]; ok && !undoW[loc] {
						c.CheckTrivial("undo/"+key, "effects-exempt", true, st.Pos(), "exempt: %s", reason)
						continue
					}
					c.Check("undo/"+key, "effects", undoW[loc], lt.undo.Pos(), "%s writes %s but %s does not (undo writes %v)", shortFn(st), loc, shortFn(lt.undo), core.SortedKeys(undoW))
					c.Check("redo/"+key, "effects", redoW[loc], lt.redo.Pos(), "%s writes %s but %s does not (redo writes %v)", shortFn(st), loc, shortFn(lt.redo), core.SortedKeys(redoW))
				}
			}
		}
		c.Floor("types-with-setter-and-undo", nT, 15)
		// premise of the AddEventLog exemption: nobody reads the event list
		_, evSites := callersOf(c, c.Method("chain/types.AccountAccessor", "GetEvents"), c.Method(accPkg+".Manager", "GetEvents"))
		nOut := 0
		for _, s := range evSites {
			if core.RelPkg(s.Caller) != accPkg {
				nOut++
			}
		}
		c.Check("exempt-premise/events-have-no-reader", "who-may-call", nOut == 0, token.NoPos, "GetEvents is called from %d sites outside package account (the un-popped events of a reverted call would become observable)", nOut)
		// premise of the SuicideLog exemption: SetSuicide is only reached from the self-destruct opcode (and redo/undo)
		names, _ := callersOf(c, c.Method("chain/types.AccountAccessor", "SetSuicide"))
		okS := true
		for _, nme := range names {
			if !(strings.Contains(nme, "chain/vm.opSuicide") || strings.Contains(nme, accPkg+".")) {
				okS = false
			}
		}
		c.Check("exempt-premise/SetSuicide-only-from-selfdestruct", "who-may-call", okS && len(names) >= 2, token.NoPos, "callers of SetSuicide: %v", names)
	})

	c.Clause("C07.4d", "undo and redo reach the account only through the accessor setters their journalling setter uses (sibling agreement), and copy-in setters re-initialise their destination before they copy, so that setting the old value removes what the reverted write added")
	c.Run("sibling-setters", func() {
		extra := map[string]map[string]string{
			"SuicideLog": {"SetBalance": "restores the balance SetSuicide(true) zeroed", "SetCodeHash": "restores the code hash SetSuicide(true) cleared", "SetStorageRoot": "restores the storage root SetSuicide(true) cleared"},
		}
		nT := 0
		for _, v := range order {
			lt := lts[v]
			if lt.undo == nil || lt.redo == nil || len(lt.setter) == 0 {
				continue
			}
			nT++
			doSet := map[string]bool{}
			for _, st := range lt.setter {
				for _, ci := range core.AllCalls(st) {
					if o := core.CalleeObj(ci); o != nil && mutator[o] != nil {
						doSet[o.Name()] = true
					}
				}
			}
			for _, ur := range []struct {
				kind string
				fn   *ssa.Function
			}{{"undo", lt.undo}, {"redo", lt.redo}} {
				for _, ci := range core.AllCalls(ur.fn) {
					cc := ci.Common()
					if cc.IsInvoke() && namedOfType(cc.Value.Type()) == "AccountAccessor" {
						// is this accessor method a mutator of *Account?
						var mo *types.Func
						for m := range mutator {
							if m.Name() == cc.Method.Name() {
								mo = m
							}
						}
						if mo == nil {
							continue
						}
						_, exempt := extra[lt.name][mo.Name()]
						c.Check(ur.kind+"/"+lt.name+"→"+mo.Name(), "sibling-agreement", doSet[mo.Name()] || exempt, ci.Pos(), "%s of %s writes through %s; the journalling setter writes through %v", ur.kind, lt.name, mo.Name(), core.SortedKeys(doSet))
						continue
					}
					// any other call inside package account that writes account state bypasses the accessor
					callee := core.StaticFn(ci)
					if callee == nil || core.RelPkg(callee) != accPkg || callee.Blocks == nil {
						continue
					}
					w := ea.Of(callee, core.Binding{}).Writes
					writes := false
					for _, pth := range w {
						for _, tn := range []string{accName, "account.StorageCache", "types.AccountData"} {
							if suf, ok := pth.SuffixFrom(tn); ok && suf != "" && !cacheFill(suf) {
								writes = true
							}
						}
					}
					c.Check(ur.kind+"/"+lt.name+":bypass:"+callee.Name(), "sibling-agreement", !writes, ci.Pos(), "%s of %s calls %s, which writes account state without going through an accessor setter of its journalling sibling", ur.kind, lt.name, shortFn(callee))
				}
			}
		}
		c.Floor("types", nT, 15)
		// copy-in setters: raw mutators that copy a map or slice parameter element-wise
		nc := 0
		for m := range mutator {
			fn := c.FuncOf(m)
			if fn == nil {
				continue
			}
			for _, b := range fn.Blocks {
				for _, in := range b.Instrs {
					switch x := in.(type) {
					case *ssa.MapUpdate:
						// destination map loaded from a field; source: iteration over a parameter
						ld, isLd := x.Map.(*ssa.UnOp)
						if !isLd {
							continue
						}
						f := core.FieldOf(ld.X)
						if f == nil || !fromParamRange(x.Value, fn) {
							continue
						}
						nc++
						c.Check("copy-in/"+m.Name()+"#"+f.Name(), "reinitialised-before-copy", freshStoreDominates(fn, f, x), x.Pos(), "%s copies its argument into %s element by element: the field must be set to a fresh map on every path first, or keys of the previous value survive", m.Name(), f.Name())
					case *ssa.Store:
						f := core.FieldOf(x.Addr)
						ap, isAp := x.Val.(*ssa.Call)
						if f == nil || !isAp {
							continue
						}
						bi, isB := ap.Call.Value.(*ssa.Builtin)
						if !isB || bi.Name() != "append" || len(ap.Call.Args) != 2 {
							continue
						}
						isParam := false
						for _, p := range fn.Params {
							// the parameter itself is spread (`append(dst, param...)`), not a single element wrapped in a varargs array
							if core.Derived(p)[ap.Call.Args[1]] {
								isParam = true
							}
						}
						if !isParam || !core.SliceHasField(core.Slice(ap.Call.Args[0]), f) {
							continue
						}
						nc++
						c.Check("copy-in/"+m.Name()+"#"+f.Name(), "reinitialised-before-copy", freshStoreDominates(fn, f, x), x.Pos(), "%s appends its argument to %s: the field must be set to a fresh slice on every path first", m.Name(), f.Name())
					}
				}
			}
		}
		c.Floor("copy-in-setters", nc, 2)
	})

	c.Clause("C07.4b", "undo restores from what was recorded: every constructor stores OldVal from a read of the account made before the write, and every undo passes a value derived from c.OldVal to the raw setter")
	c.Run("undo-from-oldval", func() {
		oldF := c.FieldVar("chain/types.ChangeLog", "OldVal")
		n := 0
		for _, v := range order {
			lt := lts[v]
			if lt.ctor == nil || lt.undo == nil {
				continue
			}
			// constructor: a store into OldVal whose value is computed from a call on the account accessor, or from a parameter that every
			// caller computes from a read of the account
			stored := false
			for _, b := range lt.ctor.Blocks {
				for _, in := range b.Instrs {
					if st, ok := in.(*ssa.Store); ok && core.FieldOf(st.Addr) == oldF && !core.IsNilConst(st.Val) {
						sl := core.Slice(st.Val)
						for x := range sl {
							if ci, isCall := x.(*ssa.Call); isCall && ci.Common().IsInvoke() && namedOfType(ci.Common().Value.Type()) == "AccountAccessor" {
								stored = true
							}
						}
						if !stored {
							for pi, prm := range lt.ctor.Params {
								if !sl[prm] {
									continue
								}
								sites := c.CallSites(lt.ctor.Object().(*types.Func))
								all := len(sites) > 0
								for _, site := range sites {
									if isTestHelper(c, site.Caller) {
										continue
									}
									fromAcc := false
									for x := range core.Slice(site.Instr.Common().Args[pi]) {
										if ci, isCall := x.(*ssa.Call); isCall {
											if o := core.CalleeObj(ci); o != nil {
												if rn := recvNamed(o); rn != nil && (rn.Name() == "Account" || rn.Name() == "SafeAccount" || rn.Name() == "AccountAccessor") {
													fromAcc = true
												}
											}
										}
									}
									if !fromAcc {
										all = false
									}
								}
								if all {
									stored = true
								}
							}
						}
					}
				}
			}
			// undo: an argument of an accessor setter derives from a load of c.OldVal
			used := false
			for _, ci := range core.AllCalls(lt.undo) {
				if !ci.Common().IsInvoke() || namedOfType(ci.Common().Value.Type()) != "AccountAccessor" {
					continue
				}
				for _, a := range ci.Common().Args {
					if core.SliceHasField(core.Slice(a), oldF) {
						used = true
					}
				}
			}
			n++
			switch lt.name {
			case "AddEventLog":
				c.CheckTrivial("oldval/"+lt.name, "undo-from-oldval", true, lt.ctor.Pos(), "exempt: the log is additive (its undo would pop; see the C07.4 exemption for the event list)")
			default:
				c.Check("oldval/"+lt.name, "undo-from-oldval", stored && used, lt.undo.Pos(), "%s: constructor records the old value from the account = %v; undo restores from c.OldVal = %v", lt.name, stored, used)
			}
		}
		c.Floor("types", n, 19)
	})

	c.Clause("C07.4c", "producers and consumers of log payloads agree on dynamic types: what a constructor can put into OldVal is accepted by the undo's assertion (an undo error is a panic in RevertToSnapshot)")
	c.Run("payload-types", func() {
		oldF := c.FieldVar("chain/types.ChangeLog", "OldVal")
		rev := c.Fn(accPkg + ".LogProcessor.RevertToSnapshot")
		// present-check: RevertToSnapshot panics on an undo error
		undoM := c.Method("chain/types.ChangeLog", "Undo")
		pan := false
		for _, g := range core.CallsIn(rev, undoM) {
			for _, t := range core.TestsOf(core.ErrResult(g), core.ErrNonNil) {
				for _, in := range t.Fail.Instrs {
					if _, ok := in.(*ssa.Panic); ok {
						pan = true
					}
				}
			}
		}
		c.Check("RevertToSnapshot:undo-error-is-fatal", "present-check", pan, rev.Pos(), "an undo error makes RevertToSnapshot panic, so undo functions must accept every payload shape their constructor produces")
		n := 0
		for _, v := range order {
			lt := lts[v]
			if lt.ctor == nil || lt.undo == nil {
				continue
			}
			produced := map[string]bool{}
			for _, b := range lt.ctor.Blocks {
				for _, in := range b.Instrs {
					st, ok := in.(*ssa.Store)
					if !ok || core.FieldOf(st.Addr) != oldF {
						continue
					}
					for _, s := range dynShapes(st.Val, 0) {
						produced[s] = true
					}
				}
			}
			if len(produced) == 0 {
				produced["<nil>"] = true // field left at its zero value
			}
			// what the undo accepts: the asserted types of c.OldVal; a nil test of c.OldVal accepts nil; no use at all accepts everything
			accepted := map[string]bool{}
			usesOld := false
			for _, b := range lt.undo.Blocks {
				for _, in := range b.Instrs {
					switch x := in.(type) {
					case *ssa.TypeAssert:
						if core.SliceHasField(core.Slice(x.X), oldF) {
							usesOld = true
							accepted[x.AssertedType.String()] = true
						}
					case *ssa.BinOp:
						if (x.Op == token.EQL || x.Op == token.NEQ) && (core.IsNilConst(x.X) || core.IsNilConst(x.Y)) {
							other := x.X
							if core.IsNilConst(other) {
								other = x.Y
							}
							if core.SliceHasField(core.Slice(other), oldF) && types.IsInterface(other.Type()) {
								usesOld = true
								accepted["<nil>"] = true
							}
						}
					}
				}
			}
			n++
			ok := true
			var missing []string
			if usesOld {
				for s := range produced {
					if !accepted[s] {
						ok = false
						missing = append(missing, s)
					}
				}
			}
			sort.Strings(missing)
			c.Check("payload/"+lt.name, "payload-types", ok, lt.undo.Pos(), "%s: constructor may store %v in OldVal, undo accepts %v; not accepted: %v", lt.name, core.SortedKeys(produced), core.SortedKeys(accepted), missing)
		}
		c.Floor("types", n, 19)
	})

	c.Clause("C07.5", "snapshot/revert pairing: wherever execution takes a snapshot, every path on which the guarded step failed passes RevertToSnapshot with that same snapshot before the function returns")
	c.Run("pairing", func() {
		snapM := []*types.Func{c.Method(accPkg+".Manager", "Snapshot"), c.Method("chain/vm.AccountManager", "Snapshot")}
		revM := []*types.Func{c.Method(accPkg+".Manager", "RevertToSnapshot"), c.Method("chain/vm.AccountManager", "RevertToSnapshot")}
		runFn := c.Fn("chain/vm.run")
		applyTx := c.Method("chain/transaction.TxProcessor", "applyTx")
		journalling := map[string]bool{}
		for _, lt := range lts {
			for _, st := range lt.setter {
				journalling[st.Name()] = true
			}
		}
		isStep := func(ci ssa.CallInstruction) bool {
			if core.StaticFn(ci) == runFn {
				return true
			}
			o := core.CalleeObj(ci)
			if o == nil {
				return false
			}
			if core.SameFamily(o, applyTx) {
				return true
			}
			if rn := recvNamed(o); rn != nil && rn.Name() == "AccountAccessor" && journalling[o.Name()] {
				return true
			}
			return false
		}
		transferF := c.FieldVar("chain/vm.Context", "Transfer")
		isWrite := func(ci ssa.CallInstruction) bool {
			if o := core.CalleeObj(ci); o != nil {
				if rn := recvNamed(o); rn != nil && rn.Name() == "AccountAccessor" && journalling[o.Name()] {
					return true
				}
			}
			// evm.Transfer(...) — a call through the Transfer field of the context
			if v := ci.Common().Value; v != nil && !ci.Common().IsInvoke() {
				if ld, isLd := v.(*ssa.UnOp); isLd && core.FieldOf(ld.X) == transferF {
					return true
				}
			}
			return false
		}
		n := 0
		for _, fn := range c.SrcFuncs {
			rel := core.RelPkg(fn)
			if (rel != "chain/vm" && rel != "chain/transaction") || isTestHelper(c, fn) {
				continue
			}
			snaps := core.CallsIn(fn, snapM...)
			if len(snaps) == 0 {
				continue
			}
			n++
			checkPairing(c, fn, snaps, core.CallsIn(fn, revM...), isStep, isWrite, revM...)
		}
		c.Floor("functions-taking-snapshots", n, 7)
	})

	c.Clause("C07.6", "redo path: Manager.RebuildAll resets to the parent state, skips exactly the four root log types and applies Redo to every other log, heeding its error")
	c.Run("rebuild", func() {
		fn := c.Fn(accPkg + ".Manager.RebuildAll")
		reset := core.CallsIn(fn, c.Method(accPkg+".Manager", "Reset"))
		redo := core.CallsIn(fn, c.Method("chain/types.ChangeLog", "Redo"))
		ok := len(reset) == 1 && len(redo) == 1
		if ok {
			ok = core.Dominates(reset[0], redo[0]) && core.SliceHasCall(core.Slice(reset[0].Common().Args[1]), c.Method("chain/types.Block", "ParentHash"))
		}
		c.Check("RebuildAll:Reset(ParentHash)≺Redo", "order", ok, fn.Pos(), "the replay starts from the parent's state")
		if len(redo) == 1 {
			// the skip tests: comparisons of cl.LogType with constants; the set of constants is exactly the four root types
			ltF := c.FieldVar("chain/types.ChangeLog", "LogType")
			skipped := map[int64]bool{}
			for _, b := range fn.Blocks {
				for _, in := range b.Instrs {
					bo, isB := in.(*ssa.BinOp)
					if !isB || bo.Op != token.EQL {
						continue
					}
					var k *ssa.Const
					var other ssa.Value
					if kc, isC := bo.Y.(*ssa.Const); isC {
						k, other = kc, bo.X
					} else if kc, isC := bo.X.(*ssa.Const); isC {
						k, other = kc, bo.Y
					}
					if k == nil || !core.SliceHasField(core.Slice(other), ltF) {
						continue
					}
					v, _ := constant.Int64Val(constant.ToInt(k.Value))
					skipped[v] = true
				}
			}
			want := map[string]bool{"StorageRootLog": true, "AssetCodeRootLog": true, "AssetIdRootLog": true, "EquityRootLog": true}
			okSet := len(skipped) == 4
			for v := range skipped {
				if lt := lts[v]; lt == nil || !want[lt.name] {
					okSet = false
				}
			}
			c.Check("RebuildAll:skips-exactly-root-logs", "registry", okSet, fn.Pos(), "the replay skips the four root logs (recomputed by Finalise) and nothing else: %v", skipped)
			h := false
			ev := core.ErrResult(redo[0])
			for _, t := range core.TestsOf(ev, core.ErrNonNil) {
				all := true
				any := false
				for _, ret := range core.Returns(fn) {
					if t.Fail == ret.Block() || core.CanReach(t.Fail, ret.Block(), redo[0].Block()) {
						any = true
						if core.ClassifyReturn(ret, core.Derived(ev), nil) != core.RetFailure {
							all = false
						}
					}
				}
				if core.CanReach(t.Fail, redo[0].Block()) {
					all = false // continues with the next log
				}
				if all && any {
					h = true
				}
			}
			c.Check("RebuildAll→Redo", "heeded-guard", h, redo[0].Pos(), "a failing redo aborts the replay with that error")
		}
	})

	c.Clause("C07.7", "a dirty flag never outlives its payload: Account.Save stores contract code only when there is code, and clears the flag either way")
	c.Run("dirty-flag", func() {
		save := c.Fn(accPkg + ".Account.Save")
		scc := core.CallsIn(save, c.Method("store/protocol.ChainDB", "SetContractCode"))
		codeF := c.FieldVar(accPkg+".Account", "code")
		dirtyF := c.FieldVar(accPkg+".Account", "codeIsDirty")
		ok := len(scc) == 1
		if ok {
			ok = false
			for _, cg := range lenGuards(save, codeF) {
				if cg.guards(scc[0]) {
					ok = true
				}
			}
		}
		c.Check("Account.Save:SetContractCode-needs-code", "guarded-action", ok, save.Pos(), "SetContractCode (which rejects empty values and fails the whole block) is reached only with non-empty code")
		// the flag is cleared on every path through the dirty branch that returns nil
		cleared := false
		for _, b := range save.Blocks {
			for _, in := range b.Instrs {
				if st, isSt := in.(*ssa.Store); isSt && core.FieldOf(st.Addr) == dirtyF {
					if bv, isC := core.BoolConst(st.Val); isC && !bv {
						cleared = true
						// every success return is either not reachable from the dirty test's true edge or passes this store
						for _, ifb := range save.Blocks {
							ifi, isIf := ifb.Instrs[len(ifb.Instrs)-1].(*ssa.If)
							if !isIf || !core.SliceHasField(core.Slice(ifi.Cond), dirtyF) {
								continue
							}
							for _, r := range core.Returns(save) {
								if core.ClassifyReturn(r, nil, nil) == core.RetFailure {
									continue
								}
								if core.CanReach(ifb.Succs[0], r.Block(), b) && r.Block() != b {
									cleared = false
								}
							}
						}
					}
				}
			}
		}
		c.Check("Account.Save:clears-dirty-flag", "paired-effect", cleared, save.Pos(), "every successful Save of an account with the dirty flag set clears it")
	})

	c.Clause("C07.9", "merging drops only logs that changed nothing: every old/new comparison of IsValuable is an (in)equality (clause C12.7, evaluated here as well)")
	c.Run("IsValuable-symmetric", func() { c12IsValuable(c) })

	c.Clause("C07.8", "the journal is used all-or-nothing: in each of the six EVM entry points every path on which the frame ends in an error — also the conditions that only become an error later, like an oversized created code — passes RevertToSnapshot with the frame's snapshot (clause C16.4, evaluated here as well)")
	c.Run("evm-revert", func() { c16Revert(c) })

	c.Clause("C07.10", "book-keeping the journal does not restore exactly is not observable: the provisional per-type version map of an account (revert resets its values, not which keys it holds) is read by the version accessor only")
	c.Run("provisional-versions-not-observable", func() {
		f := c.FieldVar("chain/account.Account", "newestRecords")
		allowed := map[string]bool{"(*chain/account.Account).GetNextVersion": true}
		n := 0
		for _, fn := range c.SrcFuncs {
			if isTestHelper(c, fn) {
				continue
			}
			for _, b := range fn.Blocks {
				for _, in := range b.Instrs {
					ld, ok := in.(*ssa.UnOp)
					if !ok || ld.Op != token.MUL {
						continue
					}
					fa, ok := ld.X.(*ssa.FieldAddr)
					if !ok || core.FieldOf(fa) != f {
						continue
					}
					// the loaded map is only written (m[k] = v) or read (lookup, len, range, handed on)
					read := false
					if refs := ld.Referrers(); refs != nil {
						for _, r := range *refs {
							switch x := r.(type) {
							case *ssa.MapUpdate:
								if x.Map != ssa.Value(ld) {
									read = true
								}
							case *ssa.DebugRef:
							default:
								read = true
							}
						}
					}
					if !read {
						continue
					}
					n++
					name := core.FuncName(core.Outer(fn))
					c.Check("reads/Account.newestRecords@"+name, "who-may-read", allowed[name] || ownedBy(c, fn, allowed, 0), ld.Pos(), "%s reads the provisional version map; only the version accessor may (what revert leaves in it differs from a fresh account)", name)
				}
			}
		}
		c.Floor("reads/Account.newestRecords", n, 1)
	})

	c.Clause("C07.11", "two premises undo relies on: the storage cache stores the value it is given, so the nil an undo writes stays nil for the readers that test for absence; a self-destruct is journalled at most once per account, because undoSuicide can only clear the flag")
	c.Run("nil-stays-nil", func() { c07NilStaysNil(c) })
	c.Run("suicide-journalled-once", func() { c07SuicideJournalledOnce(c) })

	c.Clause("C07.12", "a write the cache accepts reaches the trie: StorageCache.SetState records every write in the dirty map, on every path — redo writes a published log's value without reading the slot first, so a cleared slot the cache has not seen yet must still be flushed as a delete, or the replayed storage root stays at the parent's")
	c.Run("setstate-always-dirty", func() { c07SetStateAlwaysDirty(c) })

	c.NotDecidedf("that undo restores the same VALUE (only that it writes the same locations from the recorded OldVal); deep-copy aliasing of OldVal; nesting/interleaving behaviour of snapshots as histories; equality of replayed and executed state")
}

func recvNamed(f *types.Func) *types.TypeName {
	if f == nil {
		return nil
	}
	r := f.Type().(*types.Signature).Recv()
	if r == nil {
		return nil
	}
	t := r.Type()
	if p, ok := t.(*types.Pointer); ok {
		t = p.Elem()
	}
	if n, ok := t.(*types.Named); ok {
		return n.Obj()
	}
	return nil
}

func namedPtr(t types.Type) string {
	if p, ok := t.(*types.Pointer); ok {
		t = p.Elem()
	}
	if n, ok := t.(*types.Named); ok {
		return n.Obj().Name()
	}
	return ""
}

func namedOfType(t types.Type) string {
	if n, ok := t.(*types.Named); ok {
		return n.Obj().Name()
	}
	return ""
}

// dynShapes lists the dynamic types an interface-typed value can hold: operand types of MakeInterface, "<nil>" for the nil constant.
func dynShapes(v ssa.Value, depth int) []string {
	if depth > 5 {
		return []string{"?"}
	}
	switch x := v.(type) {
	case *ssa.MakeInterface:
		return []string{x.X.Type().String()}
	case *ssa.Const:
		if x.Value == nil {
			return []string{"<nil>"}
		}
	case *ssa.Phi:
		var out []string
		for _, e := range x.Edges {
			out = append(out, dynShapes(e, depth+1)...)
		}
		return out
	case *ssa.UnOp:
		if al, ok := x.X.(*ssa.Alloc); ok && x.Op == token.MUL && al.Referrers() != nil {
			var out []string
			for _, r := range *al.Referrers() {
				if st, ok := r.(*ssa.Store); ok && st.Addr == al {
					out = append(out, dynShapes(st.Val, depth+1)...)
				}
			}
			if len(out) == 0 {
				out = []string{"<nil>"}
			}
			return out
		}
	case *ssa.ChangeInterface:
		return dynShapes(x.X, depth+1)
	}
	return []string{"?" + v.Type().String()}
}

// lenGuards: tests `len(field) > 0`-like conditions whose false edge skips an action.
type lenGuard struct {
	ifi *ssa.If
	okB *ssa.BasicBlock
	bad *ssa.BasicBlock
}

func (g lenGuard) guards(action ssa.Instruction) bool {
	b := g.ifi.Block()
	if !b.Dominates(action.Block()) || b == action.Block() {
		return false
	}
	return !core.CanReach(g.bad, action.Block(), b)
}

func lenGuards(fn *ssa.Function, field *types.Var) []lenGuard {
	var out []lenGuard
	for _, b := range fn.Blocks {
		ifi, ok := b.Instrs[len(b.Instrs)-1].(*ssa.If)
		if !ok {
			continue
		}
		bo, ok := ifi.Cond.(*ssa.BinOp)
		if !ok {
			continue
		}
		sl := core.Slice(bo)
		if !core.SliceHasField(sl, field) {
			continue
		}
		hasLen := false
		for v := range sl {
			if ci, isCall := v.(*ssa.Call); isCall {
				if bi, isB := ci.Common().Value.(*ssa.Builtin); isB && bi.Name() == "len" {
					hasLen = true
				}
			}
		}
		if !hasLen {
			continue
		}
		// determine polarity: cond true means "non-empty" for GTR 0 / NEQ 0; "empty" for EQL 0 / LEQ 0
		k, isK := bo.Y.(*ssa.Const)
		if !isK {
			continue
		}
		kv, _ := constant.Int64Val(constant.ToInt(k.Value))
		switch {
		case (bo.Op == token.GTR && kv == 0) || (bo.Op == token.NEQ && kv == 0) || (bo.Op == token.GEQ && kv == 1):
			out = append(out, lenGuard{ifi, b.Succs[0], b.Succs[1]})
		case (bo.Op == token.EQL && kv == 0) || (bo.Op == token.LEQ && kv == 0) || (bo.Op == token.LSS && kv == 1):
			out = append(out, lenGuard{ifi, b.Succs[1], b.Succs[0]})
		}
	}
	return out
}

// checkPairing: for each snapshot taken in fn, every call whose error is tested after the snapshot and whose failure edge leads to a
// return must pass RevertToSnapshot(snapshot) on all paths from that edge to the return — for the calls in `guarded` position:
// the execution step (a call that itself runs code: run, applyTx, …) identified as the calls dominated by the snapshot whose failing edge
// reaches at least one revert. Additionally at least one revert with the same snapshot value must exist per snapshot.
func checkPairing(c *core.Ctx, fn *ssa.Function, snaps, revs []ssa.CallInstruction, isStep, isWrite func(ssa.CallInstruction) bool, revM ...*types.Func) {
	name := shortFn(fn)
	for i, s := range snaps {
		key := name + "#snapshot" + string(rune('a'+i))
		sv := s.Value()
		d := core.Derived(sv)
		var mine []ssa.CallInstruction
		for _, r := range revs {
			a := r.Common().Args
			if len(a) > 0 && (d[a[len(a)-1]] || core.Slice(a[len(a)-1])[sv]) {
				mine = append(mine, r)
			}
		}
		// helper form of the idiom: h(snapshot, err) reverts when err is non-nil
		type condRev struct {
			call ssa.CallInstruction
			errv ssa.Value
		}
		var helpers []condRev
		for _, ci := range core.AllCalls(fn) {
			if sv2, ev2, is := condRevertCall(ci, revM...); is && (d[sv2] || core.Slice(sv2)[sv]) {
				helpers = append(helpers, condRev{ci, ev2})
			}
		}
		if !c.Check(key+":has-revert", "pairing", len(mine)+len(helpers) >= 1, s.Pos(), "%s takes a snapshot and reverts to that same snapshot somewhere (%d reverts use it)", name, len(mine)+len(helpers)) {
			continue
		}
		var revBlocks []*ssa.BasicBlock
		for _, r := range mine {
			revBlocks = append(revBlocks, r.Block())
		}
		// guarded steps: the execution steps (run / applyTx) and the journalling setters that can fail, after the snapshot
		steps := 0
		for _, ci := range core.AllCalls(fn) {
			if ci == s || !core.Dominates(s, ci) || !isStep(ci) {
				continue
			}
			ev := core.ErrResult(ci)
			if ev == nil {
				continue
			}
			callee := "call"
			if o := core.CalleeObj(ci); o != nil {
				callee = objName(o)
			} else if sf := core.StaticFn(ci); sf != nil {
				callee = sf.Name()
			}
			tests := core.TestsOf(ev, core.ErrNonNil)
			if len(tests) == 0 {
				// handed to a conditional reverter that every path from the step passes?
				viaHelper, okHelper := false, false
				for _, h := range helpers {
					if core.Derived(ev)[h.errv] || h.errv == ev {
						viaHelper = true
						if core.AlwaysFollowedBy(ci, h.call) {
							okHelper = true
						}
					}
				}
				if viaHelper {
					steps++
					c.Check(key+":"+callee+"-failure→revert", "pairing", okHelper, ci.Pos(), "in %s every path from %s to a return passes the helper that reverts to the snapshot when the step's error is non-nil", name, callee)
				}
				continue // otherwise: error handed on untested, the caller's pairing decides
			}
			steps++
			ok := true
			avoid := map[*ssa.BasicBlock]bool{}
			for _, rb := range revBlocks {
				avoid[rb] = true
			}
			for _, t := range tests {
				r := core.ReachKnowingNonNil(t.If.Block(), t.Fail, core.Derived(ev), avoid)
				for _, ret := range core.Returns(fn) {
					if r[ret.Block()] {
						ok = false
					}
				}
				if r[ci.Block()] {
					ok = false // loops to the next iteration without reverting
				}
			}
			c.Check(key+":"+callee+"-failure→revert", "pairing", ok, ci.Pos(), "in %s every path from a failure of %s to a return (or to the next iteration) passes RevertToSnapshot(snapshot)", name, callee)
		}
		c.Check(key+":guards-a-step", "pairing", steps >= 1, s.Pos(), "the snapshot of %s protects at least one failing step (%d found)", name, steps)
		// the snapshot is taken before anything the revert must undo: every journalled write of the function comes after it
		if len(snaps) == 1 && isWrite != nil {
			for _, ci := range core.AllCalls(fn) {
				if !isWrite(ci) {
					continue
				}
				callee := "write"
				if o := core.CalleeObj(ci); o != nil {
					callee = objName(o)
				}
				c.Check(key+"≺"+callee, "pairing", core.Dominates(s, ci), ci.Pos(), "in %s the journalled write %s happens after the snapshot that a failing step reverts to", name, callee)
			}
		}
	}
}

// fromParamRange: the value is an element obtained by ranging over a parameter of fn.
func fromParamRange(v ssa.Value, fn *ssa.Function) bool {
	for x := range core.Slice(v) {
		if rg, ok := x.(*ssa.Range); ok {
			for _, p := range fn.Params {
				if core.Slice(rg.X)[p] {
					return true
				}
			}
		}
	}
	return false
}

// freshStoreDominates: a store of a freshly made map/slice into field f dominates instruction at.
func freshStoreDominates(fn *ssa.Function, f *types.Var, at ssa.Instruction) bool {
	for _, b := range fn.Blocks {
		for _, in := range b.Instrs {
			st, ok := in.(*ssa.Store)
			if !ok || core.FieldOf(st.Addr) != f || st == at {
				continue
			}
			val := st.Val
			for {
				if ct, isCT := val.(*ssa.ChangeType); isCT {
					val = ct.X
					continue
				}
				break
			}
			switch v := val.(type) {
			case *ssa.MakeMap, *ssa.MakeSlice:
				if core.Dominates(st, at) {
					return true
				}
			case *ssa.Slice:
				if al, isAl := v.X.(*ssa.Alloc); isAl && al.Heap && core.Dominates(st, at) {
					return true
				}
			}
		}
	}
	return false
}
