package rules

import (
	"go/types"
	"sort"
	"strings"

	"golang.org/x/tools/go/ssa"

	"verif/lint/internal/core"
)

// cgClosure computes the set of repository functions reachable from roots in the VTA call graph (go and defer edges
// included, closures created by a reached function included). It never enters a function for which stop returns true.
// The result maps every reached function to the function it was first reached from (nil for roots).
func cgClosure(c *core.Ctx, roots []*ssa.Function, stop func(fn *ssa.Function) bool) map[*ssa.Function]*ssa.Function {
	cg := c.CallGraph()
	from := map[*ssa.Function]*ssa.Function{}
	var queue []*ssa.Function
	push := func(fn, parent *ssa.Function) {
		if fn == nil || fn.Blocks == nil {
			return
		}
		if _, seen := from[fn]; seen {
			return
		}
		if !core.InRepo(fn) || stop(fn) {
			return
		}
		from[fn] = parent
		queue = append(queue, fn)
	}
	for _, r := range roots {
		push(r, nil)
	}
	for len(queue) > 0 {
		fn := queue[0]
		queue = queue[1:]
		if n := cg.Nodes[fn]; n != nil {
			// deterministic order
			outs := make([]*ssa.Function, 0, len(n.Out))
			for _, e := range n.Out {
				outs = append(outs, e.Callee.Func)
			}
			sort.Slice(outs, func(i, j int) bool { return outs[i].String() < outs[j].String() })
			for _, callee := range outs {
				push(callee, fn)
			}
		}
		// static callees are part of the closure even where the call graph lost the node (synthetic wrappers were deleted)
		for _, ci := range core.AllCalls(fn) {
			if sc := ci.Common().StaticCallee(); sc != nil {
				if sc.Synthetic != "" && sc.Parent() == nil {
					// bound method / thunk: follow to the wrapped function
					if o := core.CalleeObj(ci); o != nil {
						push(c.FuncOf(o), fn)
					}
					continue
				}
				push(sc, fn)
			}
		}
		for _, a := range fn.AnonFuncs {
			push(a, fn)
		}
	}
	return from
}

// closurePath renders how fn was reached (root → … → fn), for diagnostics.
func closurePath(from map[*ssa.Function]*ssa.Function, fn *ssa.Function) string {
	var parts []string
	for f := fn; f != nil && len(parts) < 12; f = from[f] {
		parts = append(parts, shortFn(f))
	}
	for i, j := 0, len(parts)-1; i < j; i, j = i+1, j-1 {
		parts[i], parts[j] = parts[j], parts[i]
	}
	return strings.Join(parts, " → ")
}

// crashSite is one instruction that stops the process when executed: an explicit panic(...) or a type assertion
// without the comma-ok form.
type crashSite struct {
	Fn    *ssa.Function
	Instr ssa.Instruction
	Kind  string // "panic(<argument kind>)" or "assert(<type>)"
}

// panicArgKind names what is handed to panic: a resolved entity, never text.
func panicArgKind(v ssa.Value) string {
	for {
		if mi, ok := v.(*ssa.MakeInterface); ok {
			v = mi.X
			continue
		}
		if ci, ok := v.(*ssa.ChangeInterface); ok {
			v = ci.X
			continue
		}
		break
	}
	switch x := v.(type) {
	case *ssa.Const:
		if x.Value == nil {
			return "nil"
		}
		return "const " + types.TypeString(x.Type(), relQualifier)
	case *ssa.UnOp:
		if g, ok := x.X.(*ssa.Global); ok {
			return "var " + g.Name()
		}
	case *ssa.Call:
		if o := core.CalleeObj(x); o != nil {
			if o.Pkg() != nil {
				return "call " + o.Pkg().Name() + "." + objName(o)
			}
			return "call " + objName(o)
		}
	case *ssa.Parameter:
		return "param " + types.TypeString(x.Type(), relQualifier)
	}
	return "value " + types.TypeString(v.Type(), relQualifier)
}

func relQualifier(p *types.Package) string { return p.Name() }

// crashSites lists the explicit panics and single-result type assertions of fn.
func crashSites(fn *ssa.Function) []crashSite {
	var out []crashSite
	for _, b := range fn.Blocks {
		for _, in := range b.Instrs {
			switch x := in.(type) {
			case *ssa.Panic:
				if !x.Pos().IsValid() {
					continue // emitted by the SSA builder itself (a select without matching case), not written in the source
				}
				out = append(out, crashSite{fn, in, "panic(" + panicArgKind(x.X) + ")"})
			case *ssa.Call:
				if b, ok := x.Call.Value.(*ssa.Builtin); ok && b.Name() == "panic" && len(x.Call.Args) == 1 {
					out = append(out, crashSite{fn, in, "panic(" + panicArgKind(x.Call.Args[0]) + ")"})
				}
			case *ssa.TypeAssert:
				if !x.CommaOk {
					out = append(out, crashSite{fn, in, "assert(" + types.TypeString(x.AssertedType, relQualifier) + ")"})
				}
			}
		}
	}
	return out
}
