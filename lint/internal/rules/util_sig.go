package rules

import (
	"go/token"
	"go/types"
	"sort"
	"strings"

	"golang.org/x/tools/go/ssa"

	"verif/lint/internal/core"
)

// ---------------------------------------------------------------------------------------------
// helpers shared by C04 (replay protection) and C06 (authorisation)

// flowingFields returns the names of the fields of st from which the value sink is computed (reads inside the function plus
// reads inside statically called repository functions whose result is part of the computation — the same rule as fieldCover).
func flowingFields(sink ssa.Value, st *types.Struct) map[string]bool {
	sl := core.SliceShallow(sink)
	got := fieldsRead(sl, st)
	for v := range sl {
		if ci, ok := v.(ssa.CallInstruction); ok {
			if callee := core.StaticFn(ci); callee != nil && core.InRepo(callee) && callee.Blocks != nil {
				for _, r := range core.Returns(callee) {
					for _, res := range r.Results {
						for f := range fieldsRead(core.SliceShallow(res), st) {
							got[f] = true
						}
					}
				}
			}
		}
	}
	return got
}

// hashSink finds the single call of hashFn in fn and returns it (nil + violated obligation when there is not exactly one).
func hashSink(c *core.Ctx, key string, fn *ssa.Function, hashFn *types.Func) ssa.CallInstruction {
	calls := core.CallsIn(fn, hashFn)
	if len(calls) != 1 {
		c.Check(key+"→"+objName(hashFn), "field-cover", false, fn.Pos(), "%s must hash through %s exactly once (%d calls)", shortFn(fn), objName(hashFn), len(calls))
		return nil
	}
	// the function returns what it hashed
	ok := false
	for _, r := range core.Returns(fn) {
		if len(r.Results) > 0 && core.Slice(core.RetVal(r, 0))[calls[0].Value()] {
			ok = true
		}
	}
	c.Check(key+":returns-"+objName(hashFn), "value-flow", ok, fn.Pos(), "%s returns the hash it computed", shortFn(fn))
	return calls[0]
}

func c4SortedNames(m map[string]bool) string {
	var ks []string
	for k, v := range m {
		if v {
			ks = append(ks, k)
		}
	}
	sort.Strings(ks)
	return strings.Join(ks, ",")
}

// rejectingTests returns the tests of v (polarity fw) whose rejecting edge leads only to failure returns.
func rejectingTests(v ssa.Value, fw core.FailWhen, boolFail *bool) []core.Test {
	var out []core.Test
	if v == nil {
		return nil
	}
	var fv map[ssa.Value]bool
	if fw == core.ErrNonNil {
		fv = core.Derived(v)
	}
	for _, t := range core.TestsOf(v, fw) {
		if core.RejectsOnly(t, fv, boolFail) {
			out = append(out, t)
		}
	}
	return out
}

// heededInLoop: guard call g sits in a loop, is evaluated on every iteration, and a rejecting outcome leaves the loop towards
// failure returns only.
func heededInLoop(g ssa.CallInstruction, fw core.FailWhen, boolFail *bool) (bool, string) {
	v := core.GuardValue(g, fw)
	if v == nil {
		return false, "the guard's result is not used"
	}
	if !core.EveryIterationPasses(g) {
		return false, "some iteration of the loop does not evaluate the guard"
	}
	for _, t := range rejectingTests(v, fw, boolFail) {
		if core.Dominates(g, t.If) {
			return true, ""
		}
	}
	return false, "no test of the guard's result sends the rejecting outcome to failure returns only"
}

// argHas reports whether argument value a is computed from a call of target.
func argHas(a ssa.Value, target *types.Func) bool { return core.SliceHasCall(core.Slice(a), target) }

// isParamOf reports whether v is (a copy of) parameter i of fn.
func isParam(fn *ssa.Function, i int, v ssa.Value) bool {
	return i < len(fn.Params) && core.Derived(fn.Params[i])[v]
}

// cmpCond reports whether the slice contains a comparison with operator op (or its mirror image, for swapped operands).
func sliceHasCmp(sl map[ssa.Value]bool, ops ...token.Token) bool {
	for _, op := range ops {
		if core.SliceHasOp(sl, op) {
			return true
		}
	}
	return false
}

// ---------------------------------------------------------------------------------------------
// the signer decision of TxProcessor.checkSignersWeight (C04.5b, C06.3, C06.4 share one analysis)

type signerFacts struct {
	fn        *ssa.Function
	getCall   ssa.CallInstruction // interfaceSigner.GetSigners(tx)
	signers   ssa.Value           // the recovered list
	constIdx  []*ssa.IndexAddr    // signers[k], k constant
	loopIdx   []*ssa.IndexAddr    // signers[i] inside a loop
	otherUses int                 // uses of the list that are neither len() nor an element access
}

func analyseSigners(c *core.Ctx) *signerFacts {
	fn := c.Fn("chain/transaction.TxProcessor.checkSignersWeight")
	calls := core.CallsIn(fn, c.Method("chain/types.Signer", "GetSigners"))
	f := &signerFacts{fn: fn}
	if len(calls) != 1 {
		return f
	}
	f.getCall = calls[0]
	f.signers = core.ResultValues(calls[0])[0]
	if f.signers == nil {
		return f
	}
	for d := range core.Derived(f.signers) {
		if d.Referrers() == nil {
			continue
		}
		for _, r := range *d.Referrers() {
			switch x := r.(type) {
			case *ssa.IndexAddr:
				if _, isConst := x.Index.(*ssa.Const); isConst {
					f.constIdx = append(f.constIdx, x)
				} else {
					f.loopIdx = append(f.loopIdx, x)
				}
			case *ssa.Call:
				if core.BuiltinCallName(x) != "len" {
					f.otherUses++
				}
			case *ssa.ChangeType, *ssa.MakeInterface, *ssa.Store, *ssa.DebugRef:
				// carried on (Derived) or debug info
			default:
				f.otherUses++
			}
		}
	}
	return f
}

// elemValue returns the loaded element of an IndexAddr (nil when the address escapes instead of being loaded once).
func elemValue(ia *ssa.IndexAddr) ssa.Value {
	if ia.Referrers() == nil {
		return nil
	}
	var out ssa.Value
	for _, r := range *ia.Referrers() {
		if u, ok := r.(*ssa.UnOp); ok && u.Op == token.MUL {
			if out != nil {
				return nil
			}
			out = u
		} else if _, isDbg := r.(*ssa.DebugRef); !isDbg {
			return nil
		}
	}
	return out
}

// ---------------------------------------------------------------------------------------------
// canonical signature form (C04.5)

// sameBytesExpr: a and b denote the same bytes — the same SSA value, or structurally identical address/slice expressions
// over identical roots (sd[:] twice, sigs[i] twice, h.SignData twice).
func sameBytesExpr(a, b ssa.Value, d int) bool {
	if a == b {
		return true
	}
	if a == nil || b == nil || d > 6 {
		return false
	}
	switch x := a.(type) {
	case *ssa.Const:
		y, ok := b.(*ssa.Const)
		if !ok {
			return false
		}
		i, ok1 := constIntOf(x)
		j, ok2 := constIntOf(y)
		return ok1 && ok2 && i == j
	case *ssa.Slice:
		y, ok := b.(*ssa.Slice)
		return ok && sameBytesExpr(x.X, y.X, d+1) && sameOpt(x.Low, y.Low, d) && sameOpt(x.High, y.High, d) && sameOpt(x.Max, y.Max, d)
	case *ssa.UnOp:
		y, ok := b.(*ssa.UnOp)
		return ok && x.Op == token.MUL && y.Op == token.MUL && sameBytesExpr(x.X, y.X, d+1)
	case *ssa.IndexAddr:
		y, ok := b.(*ssa.IndexAddr)
		return ok && sameBytesExpr(x.X, y.X, d+1) && sameBytesExpr(x.Index, y.Index, d+1)
	case *ssa.FieldAddr:
		y, ok := b.(*ssa.FieldAddr)
		return ok && x.Field == y.Field && sameBytesExpr(x.X, y.X, d+1)
	case *ssa.Field:
		y, ok := b.(*ssa.Field)
		return ok && x.Field == y.Field && sameBytesExpr(x.X, y.X, d+1)
	case *ssa.ChangeType:
		y, ok := b.(*ssa.ChangeType)
		return ok && sameBytesExpr(x.X, y.X, d+1)
	}
	return false
}

func sameOpt(a, b ssa.Value, d int) bool {
	if a == nil || b == nil {
		return a == nil && b == nil
	}
	return sameBytesExpr(a, b, d+1)
}

// canonicalTestParam: fn is a boolean predicate that can answer true only after base(v, r, s) answered true with s (argument 2)
// computed from parameter i of fn — i.e. fn(sig) tests the canonical (low s) form of sig. Returns i, or -1.
// base is crypto.ValidateSignatureValues; predicates built on other such predicates are followed (depth 2).
func canonicalTestParam(p *core.Program, fn *ssa.Function, base *types.Func, depth int) int {
	if fn == nil || fn.Blocks == nil || fn.Signature.Results().Len() != 1 || depth > 2 {
		return -1
	}
	if b, ok := fn.Signature.Results().At(0).Type().Underlying().(*types.Basic); !ok || b.Info()&types.IsBoolean == 0 {
		return -1
	}
	param := -1
	var okVal func(v ssa.Value, d int) bool
	okVal = func(v ssa.Value, d int) bool {
		v = core.ResolveSpill(v)
		if bv, isC := core.BoolConst(v); isC {
			return !bv
		}
		if d > 4 {
			return false
		}
		switch x := v.(type) {
		case *ssa.Phi:
			for _, e := range x.Edges {
				if !okVal(e, d+1) {
					return false
				}
			}
			return true
		case *ssa.Call:
			var sArg ssa.Value
			switch {
			case core.SameFamily(core.CalleeObj(x), base) && len(x.Call.Args) == 3:
				sArg = x.Call.Args[2]
			default:
				if i := canonicalTestParam(p, x.Call.StaticCallee(), base, depth+1); i >= 0 && i < len(x.Call.Args) {
					sArg = x.Call.Args[i]
				}
			}
			if sArg == nil {
				return false
			}
			sl := core.Slice(sArg)
			for i, par := range fn.Params {
				if sl[par] {
					if param >= 0 && param != i {
						return false
					}
					param = i
					return true
				}
			}
		}
		return false
	}
	for _, r := range core.Returns(fn) {
		if r.Block() == fn.Recover {
			continue
		}
		if !okVal(r.Results[0], 0) {
			return -1
		}
	}
	return param
}

// placeRoot resolves an address of the form &cell.f[i].g to its local cell (nil when the address is not rooted in a local cell).
func placeRoot(addr ssa.Value) (*ssa.Alloc, bool) {
	for d := 0; d < 8; d++ {
		switch x := addr.(type) {
		case *ssa.Alloc:
			return x, true
		case *ssa.FieldAddr:
			addr = x.X
		case *ssa.IndexAddr:
			addr = x.X
		default:
			return nil, false
		}
	}
	return nil, false
}
