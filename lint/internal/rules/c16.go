package rules

import (
	"fmt"
	"go/token"
	"go/types"
	"sort"
	"strings"

	"golang.org/x/tools/go/ssa"

	"verif/lint/internal/core"
)

func init() { register("C16", c16) }

// c16: contract execution is sandboxed — bounded by gas, deterministic, all-or-nothing (structural clauses of DESIGN §3 C16).
func c16(c *core.Ctx) {
	const vm = "chain/vm"
	entryNames := []string{"Call", "CallCode", "DelegateCall", "StaticCall", "Create", "TransferAssetTx"}

	// ------------------------------------------------------------------------------------------------------------------
	c.Clause("C16.1", "interpreter loop: on every path to operation.execute the operation was found valid, its stack was validated, the static-call restrictions were enforced, the memory size was overflow-checked, the gas was computed and charged (UseGas heeded) and only then memory grown; execute's error and the reverts flag end Run with an error; depth++ / deferred depth-- bracket the body")
	c.Run("loop", func() {
		run := c.Fn(vm + ".Interpreter.Run")
		opF := func(n string) *types.Var { return c.FieldVar(vm+".operation", n) }
		execs := callsViaField(run, opF("execute"))
		c.Exactly("Run/execute-sites", len(execs), 1)
		if len(execs) != 1 {
			return
		}
		A := execs[0]
		base := callBase(A)
		aArgs := A.Common().Args // pc, evm, contract, memory, stack
		if len(aArgs) != 5 {
			c.Undecided("Run:execute-signature", "anchor-resolves", A.Pos(), "operation.execute no longer takes (pc, evm, contract, memory, stack)")
			return
		}
		aContract, aMem, aStack := aArgs[2], aArgs[3], aArgs[4]
		sameBase := func(v ssa.Value) bool { return v != nil && base != nil && (v == base || sameExprF(v, base)) }

		// (a) operation.valid
		{
			ok, why := false, "no read of operation.valid of the executed operation"
			for _, v := range fieldLoadsOf(run, opF("valid")) {
				if !sameBase(fieldBase(v)) {
					continue
				}
				k, w := core.ValueHeededBefore(v.(ssa.Instruction), v, core.IsFalse, A)
				k2, w2 := failEdgeOnlyFails(v.(ssa.Instruction), v, core.IsFalse, nil)
				if k && k2 {
					ok, why = true, ""
					break
				}
				why = w + w2
			}
			c.Check("Run:valid≺execute", "guarded-action", ok, A.Pos(), "an opcode whose table entry is not valid must end Run with an error before execute: %s", orOK(why))
		}
		// the operation record is the table entry of the fetched opcode
		opIndex := tableIndexOf(base)
		// (b) validateStack
		{
			gs := callsViaField(run, opF("validateStack"))
			ok, why := false, "no call of operation.validateStack of the executed operation"
			for _, g := range gs {
				if !sameBase(callBase(g)) {
					continue
				}
				k, w := core.HeededBefore(g, core.ErrNonNil, A)
				k2, w2 := failEdgeOnlyFails(g, core.ErrResult(g), core.ErrNonNil, nil)
				k3 := len(g.Common().Args) == 1 && sameExprF(g.Common().Args[0], aStack)
				if k && k2 && k3 {
					ok, why = true, ""
					break
				}
				why = w + w2
				if !k3 {
					why = "validateStack is not given the stack execute works on"
				}
			}
			c.Check("Run:validateStack≺execute", "guarded-action", ok, A.Pos(), "stack under/overflow must end Run with an error before execute: %s", orOK(why))
		}
		// (c) enforceRestrictions
		{
			er := c.MethodOpt(vm+".Interpreter", "enforceRestrictions")
			ok, why := false, "no call of enforceRestrictions"
			if er == nil {
				// written out inside Run: a load of readOnly that a rejecting test depends on dominates execute
				ro := c.FieldVar(vm+".Interpreter", "readOnly")
				for _, ld := range fieldLoadsOf(run, ro) {
					if in, isIn := ld.(ssa.Instruction); isIn && in.Block().Dominates(A.Block()) {
						ok, why = true, ""
					}
				}
			}
			for _, g := range core.CallsIn(run, er) {
				k, w := core.HeededBefore(g, core.ErrNonNil, A)
				k2, w2 := failEdgeOnlyFails(g, core.ErrResult(g), core.ErrNonNil, nil)
				a := g.Common().Args // in, op, operation, stack
				k3 := len(a) == 4 && sameExprF(a[3], aStack) && isLoadOfOrSame(a[2], base) && opIndex != nil && sameExprF(a[1], opIndex)
				if k && k2 && k3 {
					ok, why = true, ""
					break
				}
				why = w + w2
				if !k3 {
					why = "enforceRestrictions is not given the executed operation, its opcode and the stack execute works on"
				}
			}
			c.Check("Run:enforceRestrictions≺execute", "guarded-action", ok, A.Pos(), "a write attempted in a static frame must end Run with an error before execute: %s", orOK(why))
		}
		// (e) gasCost and UseGas
		gcs := callsViaField(run, opF("gasCost"))
		var G ssa.CallInstruction
		for _, g := range gcs {
			if sameBase(callBase(g)) {
				G = g
			}
		}
		if G == nil || len(G.Common().Args) != 6 {
			c.Check("Run:gasCost≺execute", "guarded-action", false, A.Pos(), "no call of operation.gasCost(gasTable, evm, contract, stack, mem, memorySize) of the executed operation")
			return
		}
		gArgs := G.Common().Args
		{
			k, w := core.HeededBefore(G, core.ErrNonNil, A)
			k2, w2 := failEdgeOnlyFails(G, core.ErrResult(G), core.ErrNonNil, nil)
			k3 := sameExprF(gArgs[2], aContract) && sameExprF(gArgs[3], aStack) && sameExprF(gArgs[4], aMem)
			why := w + w2
			if !k3 {
				why = "gasCost is not computed for the contract, stack and memory execute works on"
			}
			c.Check("Run:gasCost≺execute", "guarded-action", k && k2 && k3, G.Pos(), "a failing gas computation must end Run with an error before execute: %s", orOK(why))
		}
		useGas := c.Method(vm+".Contract", "UseGas")
		var U ssa.CallInstruction
		{
			cost := core.ResultValues(G)[0]
			var d map[ssa.Value]bool
			if cost != nil {
				d = core.Derived(cost)
			}
			for _, u := range core.CallsIn(run, useGas) {
				a := u.Common().Args
				if len(a) == 2 && d[a[1]] && sameExprF(a[0], aContract) {
					U = u
				}
			}
			ok, why := U != nil, "no contract.UseGas(cost) with the cost returned by gasCost on the executing contract"
			if U != nil {
				k, w := core.HeededBefore(U, core.IsFalse, A)
				k2, w2 := failEdgeOnlyFails(U, U.Value(), core.IsFalse, nil)
				ok, why = k && k2, w+w2
			}
			c.Check("Run:UseGas(cost)≺execute", "guarded-action", ok, A.Pos(), "the operation's cost must be deducted, and running out of gas must end Run with an error, before execute: %s", orOK(why))
		}
		// (d) memory size: the value charged for is overflow-checked
		M := gArgs[5]
		{
			sl := core.Slice(M)
			mcs := callsViaField(run, opF("memorySize"))
			n := 0
			for _, mc := range mcs {
				if !sameBase(callBase(mc)) || !sl[mc.Value()] {
					continue
				}
				n++
				// the function value is nil for most opcodes: the call needs a nil test
				ok := false
				for _, v := range fieldLoadsOf(run, opF("memorySize")) {
					if !sameBase(fieldBase(v)) {
						continue
					}
					if k, _ := core.ValueHeededBefore(v.(ssa.Instruction), v, core.IsNil, mc); k {
						ok = true
					}
				}
				c.Check("Run:memorySize-nil-test", "guarded-action", ok, mc.Pos(), "operation.memorySize is nil for most opcodes and must be tested before it is called")
				c.Check("Run:memorySize(stack)", "value-flow", len(mc.Common().Args) == 1 && sameExprF(mc.Common().Args[0], aStack), mc.Pos(), "the memory requirement is computed from the stack execute works on")
			}
			c.Check("Run:memorySize→gasCost", "value-flow", n >= 1, G.Pos(), "the memory size handed to gasCost is computed by operation.memorySize")
			nOv := 0
			for _, t := range []*types.Func{c.FuncObj(vm + ".bigUint64"), c.FuncObj("common/math.SafeMul")} {
				for v := range sl {
					ci, ok := v.(ssa.CallInstruction)
					if !ok || !core.SameFamily(core.CalleeObj(ci), t) {
						continue
					}
					nOv++
					k, w := resultGuarded(ci, 0, 1, core.IsTrue)
					c.Check("Run:memorySize-overflow#"+objName(t), "guarded-action", k, ci.Pos(), "the overflow flag of %s must be tested (and end Run with an error) before its result is used as the memory size: %s", objName(t), orOK(w))
				}
			}
			c.Floor("Run/memory-overflow-tests", nOv, 2)
		}
		// (f) mem.Resize only after the charge, with the charged size, and not skipped when the size is positive
		{
			resize := c.Method(vm+".Memory", "Resize")
			rs := core.CallsIn(run, resize)
			c.Exactly("Run/Resize-sites", len(rs), 1)
			if len(rs) == 1 && U != nil {
				R := rs[0]
				ra := R.Common().Args
				c.Check("Run:Resize(charged size)", "value-flow", len(ra) == 2 && ra[1] == M && sameExprF(ra[0], aMem), R.Pos(), "memory is grown to exactly the size gasCost was charged for, on the memory execute works on")
				k, w := core.HeededBefore(U, core.IsFalse, R)
				c.Check("Run:UseGas≺Resize", "guarded-action", k, R.Pos(), "memory must not grow before the gas for it was deducted: %s", orOK(w))
				// from the accepted charge, execute is not reachable around Resize except over the `size == 0` edge
				cut := map[[2]*ssa.BasicBlock]bool{}
				for _, b := range run.Blocks {
					if len(b.Instrs) == 0 {
						continue
					}
					ifi, ok := b.Instrs[len(b.Instrs)-1].(*ssa.If)
					if !ok {
						continue
					}
					if zeroEdge := sizeIsZeroEdge(ifi, M); zeroEdge >= 0 {
						cut[[2]*ssa.BasicBlock{b, b.Succs[zeroEdge]}] = true
					}
				}
				var starts []*ssa.BasicBlock
				for _, t := range core.TestsOf(U.Value(), core.IsFalse) {
					starts = append(starts, t.OK)
				}
				r := reachCut(starts, map[*ssa.BasicBlock]bool{R.Block(): true}, cut)
				c.Check("Run:Resize≺execute", "order", len(starts) > 0 && !r[A.Block()], R.Pos(), "a positive memory requirement must be applied (mem.Resize) before execute on every path")
			}
		}
		// (h) what execute reports ends the frame
		{
			k, w := failEdgeOnlyFails(A, core.ErrResult(A), core.ErrNonNil, nil)
			c.Check("Run:execute-error-ends-Run", "heeded-guard", k, A.Pos(), "an error returned by an operation must make Run return an error (the caller reverts on it): %s", orOK(w))
			ok, why := false, "operation.reverts is never read"
			for _, v := range fieldLoadsOf(run, opF("reverts")) {
				if !sameBase(fieldBase(v)) {
					continue
				}
				if k, w := failEdgeOnlyFails(v.(ssa.Instruction), v, core.IsTrue, nil); k {
					ok = true
				} else {
					why = w
				}
			}
			if ok {
				why = ""
			}
			c.Check("Run:reverts-flag-ends-Run-with-error", "heeded-guard", ok, A.Pos(), "an operation flagged reverts must make Run return an error: %s", orOK(why))
		}
		// (g) depth bracket
		{
			depth := c.FieldVar(vm+".EVM", "depth")
			var inc *ssa.Store
			nInc := 0
			for _, st := range fieldStoresIn(run, depth) {
				if isFieldPlusConst(st, depth, token.ADD, 1) {
					inc = st
					nInc++
				}
			}
			var dfr *ssa.Defer
			for _, b := range run.Blocks {
				for _, in := range b.Instrs {
					d, ok := in.(*ssa.Defer)
					if !ok {
						continue
					}
					mc, ok := d.Call.Value.(*ssa.MakeClosure)
					if !ok {
						continue
					}
					cf := mc.Fn.(*ssa.Function)
					sts := fieldStoresIn(cf, depth)
					if len(sts) == 1 && isFieldPlusConst(sts[0], depth, token.SUB, 1) {
						dfr = d
					}
				}
			}
			ok := nInc == 1 && dfr != nil && len(fieldStoresIn(run, depth)) == 1
			if ok {
				ok = inc.Block() == dfr.Block() && core.Dominates(inc, A)
				for _, r := range core.Returns(run) {
					if r.Block() == run.Recover {
						continue
					}
					if !core.Dominates(dfr, r) || !core.Dominates(inc, r) {
						ok = false
					}
				}
			}
			c.Check("Run:depth++/defer depth--", "pairing", ok, run.Pos(), "Run increments evm.depth once, registers the decrement in the same straight-line block, and both precede execute and every return")
			closedFieldWriters(c, "EVM.depth", depth, "(*"+vm+".Interpreter).Run", "(*"+vm+".Interpreter).Run$1")
		}
	})

	// ------------------------------------------------------------------------------------------------------------------
	c.Clause("C16.2", "jump table: every valid entry has execute, gasCost and validateStack; every entry whose execute can write account state (storage, events, suicide, balance, code) or reaches EVM.Create carries writes:true; CALL's value transfer is covered by the explicit branch of enforceRestrictions; enforceRestrictions rejects when readOnly and (writes or CALL with value); the table has no other writer; state-writing precompiles form a closed set")
	var table []tableEntry
	execOf := map[int64][]*ssa.Function{}
	c.Run("table", func() {
		opT := c.Named(vm + ".operation")
		opF := func(n string) *types.Var { return c.FieldVar(vm+".operation", n) }
		entries, opaque := structTable(c, vm, opT)
		for _, p := range opaque {
			c.Undecided("table:opaque-entry@"+c.Pos(p), "registry", p, "a jump-table element is written in a form the extraction does not understand")
		}
		// one definition per opcode
		seen := map[int64]int{}
		for _, e := range entries {
			seen[e.Key]++
		}
		dup := 0
		for _, n := range seen {
			if n > 1 {
				dup++
			}
		}
		c.Check("table:one-entry-per-opcode", "registry", dup == 0, token.NoPos, "%d opcode(s) are defined more than once; the effective attributes would depend on evaluation order", dup)
		table = entries
		sort.Slice(table, func(i, j int) bool { return table[i].Key < table[j].Key })

		nValid := 0
		for _, e := range table {
			valid, known := e.boolAttr(opF("valid"))
			if !known {
				c.Undecided("table["+e.Name+"]:valid", "registry", e.Pos, "the valid attribute is not a constant")
				continue
			}
			if !valid {
				continue
			}
			nValid++
			missing := []string{}
			for _, f := range []string{"execute", "gasCost", "validateStack"} {
				if !e.isSetNonNil(opF(f)) {
					missing = append(missing, f)
				}
			}
			c.CheckTrivial("table["+e.Name+"]:complete", "registry", len(missing) == 0, e.Pos, "valid entry lacks %s (Run would call a nil function)", strings.Join(missing, ", "))
		}
		c.Floor("table/valid-entries", nValid, 130)

		// --- which entries may write account state
		evmM := func(n string) *ssa.Function { return c.Fn(vm + ".EVM." + n) }
		boundary := map[*ssa.Function]bool{c.Fn(vm + ".run"): true, c.Fn(vm + ".Interpreter.Run"): true}
		entryFn := map[string]*ssa.Function{}
		for _, n := range entryNames {
			entryFn[n] = evmM(n)
			boundary[entryFn[n]] = true
		}
		writeObjs, readN := accountWriteMethods(c)
		c.Floor("table/account-mutators-classified", len(writeObjs), 20)
		c.Note("AccountAccessor/AccountManager methods classified: %d mutators, %d readers", len(writeObjs), readN)
		transferF := c.FieldVar(vm+".Context", "Transfer")
		addEventFn := c.Fn(vm + ".EVM.AddEvent")
		writeSites := func(fn *ssa.Function) []ssa.CallInstruction {
			var out []ssa.CallInstruction
			for _, ci := range core.AllCalls(fn) {
				if calleeField(ci) == transferF || core.StaticFn(ci) == addEventFn {
					out = append(out, ci)
					continue
				}
				o := core.CalleeObj(ci)
				for _, w := range writeObjs {
					if core.SameFamily(o, w) {
						out = append(out, ci)
						break
					}
				}
			}
			return out
		}
		// the explicit CALL branch of enforceRestrictions (opcodes it names)
		// (written out inside Run the guard has no exits of its own: its shape is not decided on such a tree, the table rules go on)
		erInlined := c.InlinedAway(vm + ".Interpreter.enforceRestrictions")
		var er *ssa.Function
		explicit := map[int64]bool{}
		if erInlined {
			c.Note("enforceRestrictions was inlined into Interpreter.Run: its exit shape and the opcodes its value branch names are not decided on this tree")
		} else {
			er = c.Fn(vm + ".Interpreter.enforceRestrictions")
			explicit = enforceShape(c, er, opF("writes"))
		}

		nWrites := 0
		for _, e := range table {
			valid, _ := e.boolAttr(opF("valid"))
			if !valid {
				continue
			}
			fns, ok := e.funcsOf(c, opF("execute"))
			if !ok {
				c.Undecided("table["+e.Name+"]:execute-resolves", "registry", e.Pos, "the execute attribute does not resolve to functions of package vm")
				continue
			}
			execOf[e.Key] = fns
			reached, hit := staticReach(fns, boundary)
			var direct []string
			for fn := range reached {
				for _, ci := range writeSites(fn) {
					direct = append(direct, shortFn(fn)+"→"+siteName(ci))
				}
			}
			sort.Strings(direct)
			flag, known := e.boolAttr(opF("writes"))
			if !known {
				c.Undecided("table["+e.Name+"]:writes", "registry", e.Pos, "the writes attribute is not a constant")
				continue
			}
			switch {
			case len(direct) > 0:
				nWrites++
				c.Check("table["+e.Name+"]:writes-flag", "registry+reach", flag, e.Pos, "%s can write account state (%s) and must be flagged writes:true so that static frames reject it", e.Name, strings.Join(direct, ", "))
			case hit[entryFn["Create"]]:
				nWrites++
				c.Check("table["+e.Name+"]:writes-flag", "registry+reach", flag, e.Pos, "%s reaches EVM.Create (new account, code, creation event) and must be flagged writes:true", e.Name)
			case hit[entryFn["Call"]] || hit[entryFn["TransferAssetTx"]]:
				// value transfer of a nested call: flag or the explicit branch of enforceRestrictions for this opcode
				covered := flag || explicit[e.Key] || erInlined
				c.Check("table["+e.Name+"]:value-transfer-covered", "registry+reach", covered, e.Pos, "%s reaches EVM.Call (balance transfer); it must be flagged writes:true or be named by the value branch of enforceRestrictions", e.Name)
				if explicit[e.Key] && !flag && er != nil {
					callValueIndex(c, e.Name, fns, entryFn["Call"], er)
				}
			}
		}
		c.Floor("table/entries-needing-writes", nWrites, 8)

		// the nested call kinds that are allowed in static frames write nothing themselves (up to `run`) except: the platform's
		// failure event, and — in Call only — the value transfer (covered above). The frame they start is constrained through
		// the inherited readOnly flag.
		for _, n := range []string{"Call", "CallCode", "DelegateCall", "StaticCall"} {
			reached, _ := staticReach([]*ssa.Function{entryFn[n]}, map[*ssa.Function]bool{c.Fn(vm + ".run"): true, c.Fn(vm + ".Interpreter.Run"): true})
			var other []string
			nT := 0
			for fn := range reached {
				for _, ci := range writeSites(fn) {
					switch {
					case calleeField(ci) == transferF && n == "Call":
						nT++
					case fn == entryFn[n] && isFailureEvent(c, ci):
					case fn == addEventFn:
						// the body of the EVM.AddEvent helper; its call sites are judged
					default:
						other = append(other, shortFn(fn)+"→"+siteName(ci))
					}
				}
			}
			sort.Strings(other)
			want := 0
			if n == "Call" {
				want = 1
			}
			c.Check("EVM."+n+":no-own-account-write", "reach", len(other) == 0 && nT == want, entryFn[n].Pos(), "besides the platform's TopicRunFail event (and the value transfer of Call) EVM.%s itself writes account state: %s (transfer sites: %d)", n, strings.Join(other, ", "), nT)
		}

		// --- nobody else writes table entries: only the constructor and the helpers it (statically) calls, into a table they
		// build locally or were handed by the constructor
		builders, _ := staticReach([]*ssa.Function{c.Fn(vm + ".NewInstructionSet")}, nil)
		ownTable := func(fn *ssa.Function, addr ssa.Value) bool {
			if !builders[fn] {
				return false
			}
			switch addrRoot(addr).(type) {
			case *ssa.Alloc, *ssa.Parameter:
				return true
			}
			return false
		}
		var wr []string
		for _, fn := range c.SrcFuncs {
			if isTestHelper(c, fn) {
				continue
			}
			for _, b := range fn.Blocks {
				for _, in := range b.Instrs {
					st, ok := in.(*ssa.Store)
					if !ok {
						continue
					}
					if fa, ok := st.Addr.(*ssa.FieldAddr); ok {
						if f := core.FieldOf(fa); f != nil && fieldOfStruct(f, opT) && !ownTable(fn, fa.X) {
							wr = append(wr, core.FuncName(fn)+" ."+f.Name())
						}
						continue
					}
					if types.Identical(st.Val.Type(), opT) {
						if _, local := st.Addr.(*ssa.Alloc); !local && !ownTable(fn, st.Addr) {
							wr = append(wr, core.FuncName(fn)+" [element]")
						}
					}
				}
			}
		}
		sort.Strings(wr)
		c.Check("table:no-foreign-writer", "who-may-write", len(wr) == 0, token.NoPos, "jump-table entries are modified outside NewInstructionSet: %s", strings.Join(wr, "; "))
		// Config.JumpTable is only ever set to NewInstructionSet()
		jt := c.FieldVar(vm+".Config", "JumpTable")
		nis := c.FuncObj(vm + ".NewInstructionSet")
		ws := closedFieldWriters(c, "Config.JumpTable", jt, vm+".NewInterpreter")
		for _, w := range ws {
			c.Check("Config.JumpTable←NewInstructionSet@"+core.FuncName(w.Fn), "value-flow", core.SliceHasCall(core.Slice(w.Store.Val), nis), w.Store.Pos(), "the interpreter's table is the one built by NewInstructionSet")
		}
		c.Floor("table/JumpTable-writers", len(ws), 1)

		// --- precompiles that write state are a closed set (they are not subject to the writes flag)
		pc := c.Named(vm + ".PrecompiledContract")
		iface := pc.Underlying().(*types.Interface)
		var writing []string
		nImpl := 0
		for _, name := range c.Pkg(vm).Scope().Names() {
			tn, ok := c.Pkg(vm).Scope().Lookup(name).(*types.TypeName)
			if !ok {
				continue
			}
			if _, isI := tn.Type().Underlying().(*types.Interface); isI {
				continue
			}
			pt := types.NewPointer(tn.Type())
			if !types.Implements(pt, iface) && !types.Implements(tn.Type(), iface) {
				continue
			}
			nImpl++
			obj, _, _ := types.LookupFieldOrMethod(pt, true, c.Pkg(vm), "Run")
			m, _ := obj.(*types.Func)
			fn := c.FuncOf(m)
			if fn == nil {
				c.Undecided("precompile["+name+"]:Run-resolves", "registry", token.NoPos, "Run of %s has no body", name)
				continue
			}
			reached, hit := staticReach([]*ssa.Function{fn}, boundary)
			w := len(hit) > 0
			for r := range reached {
				if len(writeSites(r)) > 0 {
					w = true
				}
			}
			if w {
				writing = append(writing, name)
			}
		}
		c.Floor("table/precompile-implementations", nImpl, 9)
		for _, w := range writing {
			c.Check("precompile["+w+"]:state-writing-allowed", "who-may-write", w == "setRewardValue", token.NoPos, "precompiled contract %s writes account state or re-enters the EVM; precompiles are not covered by the writes flag, so the set of writing precompiles is frozen (setRewardValue, gated in run() by caller == RewardManager)", w)
		}
	})

	// ------------------------------------------------------------------------------------------------------------------
	c.Clause("C16.3", "every call kind refuses to start a frame above the depth limit (evm.depth > CallCreateDepth → error, before run), and moves value only after CanTransfer accepted the same sender and amount")
	c.Run("guards", func() {
		depth := c.FieldVar(vm+".EVM", "depth")
		limit, _ := constInt(c.Const("chain/params.CallCreateDepth"))
		runObj := c.FuncObj(vm + ".run")
		n := 0
		for _, name := range entryNames {
			fn := c.Fn(vm + ".EVM." + name)
			rc := core.CallsIn(fn, runObj)
			if len(rc) != 1 {
				c.Check("EVM."+name+":run-site", "anchor-resolves", false, fn.Pos(), "EVM.%s must start the frame through exactly one call of run (%d found)", name, len(rc))
				continue
			}
			ok := false
			for _, g := range core.CondGuards(fn, nil) {
				bo, isB := g.If.Cond.(*ssa.BinOp)
				if !isB || !depthExceeds(bo, depth, limit) || g.Fail != g.If.Block().Succs[0] {
					continue
				}
				if g.GuardsAction(rc[0]) {
					ok = true
				}
			}
			if c.Check("EVM."+name+":depth-limit≺run", "quantity-guard", ok, rc[0].Pos(), "EVM.%s must return an error when evm.depth exceeds params.CallCreateDepth (%d) on every path to run", name, limit) {
				n++
			}
		}
		c.Floor("guards/depth-limited-entry-points", n, 6)

		// value moves only through Context.Transfer, in Call and Create, each behind CanTransfer
		transferF := c.FieldVar(vm+".Context", "Transfer")
		canF := c.FieldVar(vm+".Context", "CanTransfer")
		nT := 0
		for _, fn := range c.SrcFuncs {
			if isTestHelper(c, fn) {
				continue
			}
			for _, T := range callsViaField(fn, transferF) {
				nT++
				name := core.FuncName(fn)
				c.Check("Transfer@"+name, "who-may-call", name == "(*"+vm+".EVM).Call" || name == "(*"+vm+".EVM).Create", T.Pos(), "Context.Transfer is called from %s, outside the two frames that check CanTransfer", name)
				ta := T.Common().Args // am, from, to, value
				ok, why := false, "no CanTransfer call in the function"
				for _, g := range callsViaField(fn, canF) {
					ga := g.Common().Args // am, addr, value
					if len(ga) != 3 || len(ta) != 4 {
						continue
					}
					if !(sameExprF(ga[0], ta[0]) && sameExprF(ga[1], ta[1]) && sameExprF(ga[2], ta[3])) {
						why = "CanTransfer is asked about another account manager, sender or amount than Transfer moves"
						continue
					}
					k, w := core.ValueHeededBefore(g, g.Value(), core.IsFalse, T)
					k2, w2 := failEdgeOnlyFails(g, g.Value(), core.IsFalse, nil)
					if k && k2 {
						ok, why = true, ""
						break
					}
					why = w + w2
				}
				c.Check("CanTransfer≺Transfer@"+shortFn(fn), "guarded-action", ok, T.Pos(), "value must only move after CanTransfer(same am, same sender, same amount) accepted: %s", orOK(why))
			}
		}
		c.Exactly("guards/Transfer-sites", nT, 2)
	})

	// ------------------------------------------------------------------------------------------------------------------
	c.Clause("C16.4", "all-or-nothing: in each of the six call kinds the snapshot is taken before any write and before run, and every path on which run (or, in Create, the code-store step) ends in an error passes RevertToSnapshot with that snapshot before returning; StaticCall runs the frame with readOnly set and restores it only if it set it")
	c.Run("revert", func() { c16Revert(c) })

	// repaired crash consequences of a failing frame (D29, D33: listed under C07/C16 in DESIGN §2). The journal itself is C07's;
	// these two obligations keep the repairs that contract execution depends on from being lost.
	c.Run("journal-repairs", func() {
		// D29: undoEquity must accept the nil old value NewEquityLog records for a first credit (RevertToSnapshot panics on an undo error)
		ue := c.Fn("chain/account.undoEquity")
		oldF := c.FieldVar("chain/types.ChangeLog", "OldVal")
		nTA := 0
		for _, b := range ue.Blocks {
			for _, in := range b.Instrs {
				ta, ok := in.(*ssa.TypeAssert)
				if !ok || loadedField(ta.X) != oldF {
					continue
				}
				nTA++
				okNil := false
				for _, v := range fieldLoadsOf(ue, oldF) {
					if k, _ := core.ValueHeededBefore(v.(ssa.Instruction), v, core.IsNil, ta); !k {
						continue
					}
					for _, t := range core.TestsOf(v, core.IsNil) {
						for _, r := range core.Returns(ue) {
							if core.CanReach(t.Fail, r.Block(), t.If.Block()) && core.ClassifyReturn(r, nil, nil) != core.RetFailure {
								okNil = true // the nil case has its own, not rejecting, exit
							}
						}
					}
				}
				c.Check("undoEquity:nil-old-value-accepted", "sibling-agreement", okNil, ta.Pos(), "a first credit is journalled with a nil old value; undoEquity must handle nil before asserting the type (TransferAssetTx to a contract whose code fails would otherwise panic in RevertToSnapshot)")
			}
		}
		c.Floor("journal/undoEquity-type-assertions", nTA, 1)
		// D33: Account.Save must not hand empty code to the store (a contract created and destroyed in one block made the block unsavable)
		sv := c.Fn("chain/account.Account.Save")
		codeF := c.FieldVar("chain/account.Account", "code")
		scc := core.CallsIn(sv, c.Method("store/protocol.ChainDB", "SetContractCode"))
		c.Floor("journal/Save-SetContractCode-sites", len(scc), 1)
		for _, call := range scc {
			ok := false
			for _, b := range sv.Blocks {
				if len(b.Instrs) == 0 {
					continue
				}
				ifi, isIf := b.Instrs[len(b.Instrs)-1].(*ssa.If)
				if !isIf || !b.Dominates(call.Block()) || b == call.Block() {
					continue
				}
				bo, isB := ifi.Cond.(*ssa.BinOp)
				if !isB {
					continue
				}
				for _, m := range []ssa.Value{bo.X, bo.Y} {
					lc, isCall := m.(*ssa.Call)
					if !isCall {
						continue
					}
					if bi, isBuiltin := lc.Call.Value.(*ssa.Builtin); !isBuiltin || bi.Name() != "len" || !core.SliceHasField(core.Slice(lc.Call.Args[0]), codeF) {
						continue
					}
					if z := sizeIsZeroEdge(ifi, m); z >= 0 && !reachCut([]*ssa.BasicBlock{b.Succs[z]}, map[*ssa.BasicBlock]bool{b: true}, nil)[call.Block()] {
						ok = true
					}
				}
			}
			c.Check("Account.Save:empty-code-not-stored", "guarded-action", ok, call.Pos(), "SetContractCode rejects empty code; Save must skip it when the account has none (created and self-destructed, or reverted creation)")
		}
	})

	// ------------------------------------------------------------------------------------------------------------------
	c.Clause("C16.5", "gas: UseGas refuses when the frame has less than asked and otherwise only subtracts; Contract.Gas has a closed set of writers and the call opcodes add back only the callee's returned gas; what a nested frame is given was first deducted from the caller; every call kind hands back the callee frame's own remaining gas; precompiles run only after UseGas(RequiredGas(input)) accepted")
	c.Run("gas", func() {
		gasF := c.FieldVar(vm+".Contract", "Gas")
		ug := c.Fn(vm + ".Contract.UseGas")
		useGas := c.Method(vm+".Contract", "UseGas")
		// shape of UseGas
		{
			sts := fieldStoresIn(ug, gasF)
			ok, why := len(sts) == 1 && len(ug.Params) == 2, "UseGas must assign c.Gas exactly once"
			if ok {
				recv, amount := ug.Params[0], ug.Params[1]
				st := sts[0]
				bo, isB := st.Val.(*ssa.BinOp)
				ok = isB && bo.Op == token.SUB && loadedField(bo.X) == gasF && fieldBase(bo.X) == recv && bo.Y == amount && st.Addr.(*ssa.FieldAddr).X == recv
				why = "the only assignment must be c.Gas = c.Gas - gas"
				if ok {
					// guarded by `c.Gas < gas` whose true edge returns false
					ok, why = false, "the subtraction is not guarded by a test c.Gas < gas that returns false"
					bf := false
					for _, g := range core.CondGuards(ug, &bf) {
						cb, isB := g.If.Cond.(*ssa.BinOp)
						if !isB {
							continue
						}
						lt := (cb.Op == token.LSS && loadedField(cb.X) == gasF && fieldBase(cb.X) == recv && cb.Y == amount && g.Fail == g.If.Block().Succs[0]) ||
							(cb.Op == token.GTR && loadedField(cb.Y) == gasF && fieldBase(cb.Y) == recv && cb.X == amount && g.Fail == g.If.Block().Succs[0]) ||
							(cb.Op == token.GEQ && loadedField(cb.X) == gasF && fieldBase(cb.X) == recv && cb.Y == amount && g.Fail == g.If.Block().Succs[1]) ||
							(cb.Op == token.LEQ && loadedField(cb.Y) == gasF && fieldBase(cb.Y) == recv && cb.X == amount && g.Fail == g.If.Block().Succs[1])
						if lt && g.GuardsAction(st) {
							ok, why = true, ""
						}
					}
					// success is reported only after the subtraction
					for _, r := range core.Returns(ug) {
						if bv, isC := core.BoolConst(core.RetVal(r, 0)); !isC || (bv && !core.Dominates(st, r)) {
							ok, why = false, "UseGas returns true (or a computed value) on a path that did not subtract"
						}
					}
				}
			}
			c.Check("UseGas:refuse-or-subtract", "shape", ok, ug.Pos(), "Contract.UseGas must be `if c.Gas < gas {return false}; c.Gas -= gas; return true`: %s", orOK(why))
		}
		// closed writers; the opcodes add back only the callee's leftover
		allowed := []string{vm + ".NewContract", "(*" + vm + ".Contract).UseGas", vm + ".opCreate", vm + ".opCall", vm + ".opCallCode", vm + ".opDelegateCall", vm + ".opStaticCall"}
		ws := closedFieldWriters(c, "Contract.Gas", gasF, allowed...)
		c.Floor("gas/Contract.Gas-writers", len(ws), 3)
		var entryObjs []*types.Func
		for _, n := range entryNames {
			entryObjs = append(entryObjs, c.Method(vm+".EVM", n))
		}
		nBack := 0
		for _, w := range ws {
			name := core.FuncName(w.Fn)
			switch name {
			case "(*" + vm + ".Contract).UseGas":
				continue
			case vm + ".NewContract":
				// c.Gas = gas parameter
				okN := len(w.Fn.Params) == 4 && isUint64(w.Fn.Params[3].Type()) && core.Derived(w.Fn.Params[3])[w.Store.Val]
				c.Check("NewContract:Gas←gas", "value-flow", okN, w.Store.Pos(), "a new frame starts with exactly the gas it was given")
				continue
			}
			bo, isB := w.Store.Val.(*ssa.BinOp)
			ok := isB && bo.Op == token.ADD
			if ok {
				x, y := bo.X, bo.Y
				if loadedField(x) != gasF {
					x, y = y, x
				}
				ok = loadedField(x) == gasF && sameExprF(fieldBase(x), w.Store.Addr.(*ssa.FieldAddr).X)
				if ok {
					isReturnGas := func(fn *ssa.Function, v ssa.Value) bool {
						for _, ci := range core.CallsIn(fn, entryObjs...) {
							for i, rv := range core.ResultValues(ci) {
								if rv != nil && rv == v && isUint64(ci.Common().Signature().Results().At(i).Type()) {
									return true
								}
							}
						}
						return false
					}
					ok = isReturnGas(w.Fn, y)
					// helper form: the amount is a parameter and every caller hands over the gas its nested call returned
					if par, isP := y.(*ssa.Parameter); !ok && isP {
						if fo, isF := w.Fn.Object().(*types.Func); isF && !fo.Exported() {
							idx := -1
							for i, q := range w.Fn.Params {
								if q == par {
									idx = i
								}
							}
							_, sites := callersOf(c, fo)
							ok = len(sites) > 0 && idx >= 0
							for _, cs := range sites {
								a := cs.Instr.Common().Args
								if cs.Instr.Common().IsInvoke() || idx >= len(a) || !isReturnGas(cs.Caller, a[idx]) {
									ok = false
								}
							}
						}
					}
				}
			}
			if c.Check("Contract.Gas+=returnGas@"+shortFn(w.Fn), "value-flow", ok, w.Store.Pos(), "%s may only add the gas returned by the nested EVM call back to the frame", shortFn(w.Fn)) {
				nBack++
			}
		}
		c.Floor("gas/add-back-sites", nBack, 1)

		// what the nested frame gets was deducted first
		tmp := c.FieldVar(vm+".EVM", "callGasTemp")
		opF := func(n string) *types.Var { return c.FieldVar(vm+".operation", n) }
		nFwd, nStip := 0, 0
		for _, e := range table {
			fns := execOf[e.Key]
			for _, fn := range fns {
				for _, ci := range core.CallsIn(fn, entryObjs...) {
					gi := gasArgIndex(ci)
					if gi < 0 {
						c.Undecided("table["+e.Name+"]:forwarded-gas", "value-flow", ci.Pos(), "no uint64 gas argument found")
						continue
					}
					gasArg := ci.Common().Args[gi]
					sl := core.Slice(gasArg)
					if core.SliceHasField(sl, tmp) {
						// charged by the entry's gas function through evm.callGasTemp
						gfs, ok := e.funcsOf(c, opF("gasCost"))
						ok = ok && len(gfs) > 0
						for i := range gfs {
							gfs[i] = unwrapForwarder(gfs[i])
						}
						// a stipend handed to the callee on top of the forwarded gas is paid for by the value-transfer surcharge
						if stip, _ := constInt(c.Const("chain/params.CallStipend")); core.SliceHasIntConst(sl, stip) {
							sur, _ := constInt(c.Const("chain/params.CallValueTransferGas"))
							paid := len(gfs) > 0 && sur >= stip
							for _, gf := range gfs {
								for _, r := range core.Returns(gf) {
									if core.ClassifyReturn(r, nil, nil) == core.RetFailure {
										continue
									}
									if !core.SliceHasIntConst(core.Slice(core.RetVal(r, 0)), sur) {
										paid = false
									}
								}
							}
							c.Check("table["+e.Name+"]:stipend-paid-by-value-surcharge", "value-flow", paid, ci.Pos(), "%s adds CallStipend (%d) to the gas of the nested frame when value is sent; its gasCost function must charge CallValueTransferGas (%d ≥ stipend) on the way to every cost it returns, otherwise a call with value returns more gas than it cost", e.Name, stip, sur)
							nStip++
						}
						for _, gf := range gfs {
							if len(fieldStoresIn(gf, tmp)) == 0 {
								ok = false
							}
							for _, r := range core.Returns(gf) {
								if core.ClassifyReturn(r, nil, nil) == core.RetFailure {
									continue
								}
								if !core.SliceHasField(core.Slice(core.RetVal(r, 0)), tmp) {
									ok = false
								}
							}
						}
						if c.Check("table["+e.Name+"]:forwarded-gas-charged", "value-flow", ok, ci.Pos(), "%s forwards evm.callGasTemp to the nested frame; its gasCost function must set callGasTemp and include it in every cost it returns", e.Name) {
							nFwd++
						}
						continue
					}
					// charged inline: contract.UseGas(g) with the same g dominates the call
					ok := false
					for _, u := range core.CallsIn(fn, useGas) {
						ua := u.Common().Args
						if len(ua) == 2 && ua[1] == gasArg && core.Dominates(u, ci) {
							ok = true
						}
					}
					if c.Check("table["+e.Name+"]:forwarded-gas-charged", "value-flow", ok, ci.Pos(), "%s must deduct (UseGas) exactly the gas it hands to the nested frame before the call", e.Name) {
						nFwd++
					}
				}
			}
		}
		c.Floor("gas/forwarding-opcodes", nFwd, 5)
		c.Floor("gas/stipend-opcodes", nStip, 2)

		// every call kind returns gas ∈ {its gas parameter, 0, the Gas field of the frame created with that parameter}
		newC := c.FuncObj(vm + ".NewContract")
		nRet := 0
		for _, name := range entryNames {
			fn := c.Fn(vm + ".EVM." + name)
			var gasP *ssa.Parameter
			for _, p := range fn.Params {
				if p.Name() == "gas" && isUint64(p.Type()) {
					gasP = p
				}
			}
			ri := -1
			for i := 0; i < fn.Signature.Results().Len(); i++ {
				if isUint64(fn.Signature.Results().At(i).Type()) {
					ri = i
				}
			}
			if gasP == nil || ri < 0 {
				c.Undecided("EVM."+name+":returns-frame-gas", "value-flow", fn.Pos(), "gas parameter / leftover result not found")
				continue
			}
			dp := core.Derived(gasP)
			ok := true
			for _, r := range core.Returns(fn) {
				if r.Block() == fn.Recover {
					continue
				}
				v := core.RetVal(r, ri)
				if dp[v] {
					continue
				}
				if k, isK := intConstOfF(v); isK && k == 0 {
					continue
				}
				good := false
				if loadedField(v) == gasF {
					for x := range core.Slice(fieldBase(v)) {
						if ci, isCall := x.(ssa.CallInstruction); isCall && core.SameFamily(core.CalleeObj(ci), newC) {
							a := ci.Common().Args
							if len(a) == 4 && dp[a[3]] {
								good = true
							}
						}
					}
				}
				if !good {
					ok = false
				}
			}
			if c.Check("EVM."+name+":returns-frame-gas", "value-flow", ok, fn.Pos(), "EVM.%s must hand back its gas parameter untouched, 0, or the remaining gas of the frame it created with that parameter", name) {
				nRet++
			}
		}
		c.Floor("gas/entry-points-return-frame-gas", nRet, 6)

		// precompiles
		rp := c.Fn(vm + ".RunPrecompiledContract")
		runM := c.Method(vm+".PrecompiledContract", "Run")
		reqM := c.Method(vm+".PrecompiledContract", "RequiredGas")
		runs := core.CallsIn(rp, runM)
		c.Floor("gas/precompile-Run-sites", len(runs), 1)
		for i, pr := range runs {
			ok, why := false, "no contract.UseGas(p.RequiredGas(input)) before p.Run(input)"
			for _, u := range core.CallsIn(rp, useGas) {
				ua := u.Common().Args
				if len(ua) != 2 {
					continue
				}
				rq, isCall := ua[1].(*ssa.Call)
				if !isCall || !core.SameFamily(core.CalleeObj(rq), reqM) || rq.Call.Value != pr.Common().Value || len(rq.Call.Args) != 1 || len(pr.Common().Args) != 1 || rq.Call.Args[0] != pr.Common().Args[0] {
					why = "the gas charged is not RequiredGas of the same contract for the same input"
					continue
				}
				k, w := core.HeededBefore(u, core.IsFalse, pr)
				k2, w2 := failEdgeOnlyFails(u, u.Value(), core.IsFalse, nil)
				if k && k2 {
					ok, why = true, ""
					break
				}
				why = w + w2
			}
			c.Check(fmt.Sprintf("RunPrecompiledContract:UseGas(RequiredGas)≺Run#%c", 'a'+i), "guarded-action", ok, pr.Pos(), "a precompiled contract must only run after its required gas was deducted: %s", orOK(why))
		}
		// run() is the only caller of RunPrecompiledContract and of precompile Run
		closedCallers(c, "PrecompiledContract.Run", []string{vm + ".RunPrecompiledContract"}, runM)
	})

	// ------------------------------------------------------------------------------------------------------------------
	c.Clause("C16.6", "determinism inside package vm: no wall clock / randomness except values that flow only into the Tracer or the log, no goroutine, no select, no order-sensitive map iteration; the abort flag is written only by Cancel, which only the read-only RPC path calls")
	c.Run("determinism", func() {
		det16(c, vm)
	})

	c.Clause("C16.7", "the jump-destination analysis is cached by the hash of the code that runs: every Contract.SetCallCode is given either the Keccak hash of the very code it installs, or the stored code hash of the account whose stored code it installs")
	c.Run("code-hash-key", func() {
		scc := c.Method(vm+".Contract", "SetCallCode")
		kh := c.FuncObj("common/crypto.Keccak256Hash")
		getHash := c.Method("chain/types.AccountAccessor", "GetCodeHash")
		getCode := c.Method("chain/types.AccountAccessor", "GetCode")
		n := 0
		for _, site := range c.CallSites(scc) {
			if isTestHelper(c, site.Caller) || core.RelPkg(site.Caller) != vm {
				continue
			}
			n++
			a := site.Instr.Common().Args
			hash, code := a[len(a)-2], a[len(a)-1]
			ok := false
			hs, cs := core.Slice(hash), core.Slice(code)
			// (a) hash = Keccak256Hash(code)
			for v := range hs {
				if call, isCall := v.(*ssa.Call); isCall && core.SameFamily(core.CalleeObj(call), kh) {
					if arg := call.Call.Args[0]; arg == code || core.Derived(code)[arg] || core.Derived(arg)[code] || core.Slice(arg)[core.ResolveSpill(code)] && len(core.Slice(arg)) <= len(cs)+2 {
						ok = true
					}
				}
			}
			// (b) hash = X.GetCodeHash() and code = X.GetCode() for one account value X
			if !ok {
				var hx, cx ssa.Value
				for v := range hs {
					if call, isCall := v.(*ssa.Call); isCall && core.SameFamily(core.CalleeObj(call), getHash) {
						hx = call.Call.Value
						if !call.Call.IsInvoke() && len(call.Call.Args) > 0 {
							hx = call.Call.Args[0]
						}
					}
				}
				for v := range cs {
					if call, isCall := v.(*ssa.Call); isCall && core.SameFamily(core.CalleeObj(call), getCode) {
						cx = call.Call.Value
						if !call.Call.IsInvoke() && len(call.Call.Args) > 0 {
							cx = call.Call.Args[0]
						}
					}
				}
				ok = hx != nil && cx != nil && (hx == cx || core.Derived(hx)[cx] || core.Derived(cx)[hx] || sameExprF(hx, cx))
			}
			c.Check("SetCallCode(hash-of-installed-code)@"+shortFn(site.Caller), "value-flow", ok, site.Instr.Pos(), "in %s the code hash handed to SetCallCode identifies the code that is installed (Keccak of that code, or GetCodeHash/GetCode of one account)", shortFn(site.Caller))
		}
		c.Floor("SetCallCode-sites", n, 6)
	})

	c.Clause("C16.8", "the integer pool recycles only integers the frame owns: every value handed to intPool.put was popped from the frame's stack, taken from the pool, or freshly allocated (or is the result of a big.Int method on such a value) — a shared integer (common.Big0 returned for a zero-length memory operand, a constant, a field of the contract) that enters the pool is overwritten by the next opcode that takes it out, and every later execution in the process sees the changed constant")
	c.Run("intpool-owned", func() {
		put := c.Method(vm+".intPool", "put")
		get := []*types.Func{c.Method(vm+".intPool", "get"), c.Method(vm+".intPool", "getZero")}
		pop := []*types.Func{c.Method(vm+".Stack", "pop")}
		var owned func(v ssa.Value, d int) bool
		owned = func(v ssa.Value, d int) bool {
			if d > 10 {
				return false
			}
			switch x := v.(type) {
			case *ssa.Alloc:
				return true
			case *ssa.Call:
				o := core.CalleeObj(x)
				for _, g := range append(append([]*types.Func{}, get...), pop...) {
					if o == g {
						return true
					}
				}
				if o != nil && o.Pkg() != nil && o.Pkg().Path() == "math/big" {
					if o.Name() == "NewInt" {
						return true
					}
					if sig, ok := o.Type().(*types.Signature); ok && sig.Recv() != nil && len(x.Call.Args) > 0 {
						return owned(x.Call.Args[0], d+1)
					}
				}
				// math.U256 and friends hand back their argument
				if sf := core.StaticFn(x); sf != nil && core.RelPkg(sf) == "common/math" && len(x.Call.Args) == 1 {
					return owned(x.Call.Args[0], d+1)
				}
				return false
			case *ssa.Extract:
				return false
			case *ssa.Phi:
				for _, e := range x.Edges {
					if !owned(e, d+1) {
						return false
					}
				}
				return len(x.Edges) > 0
			case *ssa.UnOp:
				if al, ok := x.X.(*ssa.Alloc); ok && x.Op == token.MUL && al.Referrers() != nil {
					n := 0
					for _, r := range *al.Referrers() {
						if st, ok := r.(*ssa.Store); ok && st.Addr == ssa.Value(al) {
							n++
							if !owned(st.Val, d+1) {
								return false
							}
						}
					}
					return n > 0
				}
			}
			return false
		}
		nPut, nArg := 0, 0
		seq := map[string]int{}
		for _, fn := range c.SrcFuncs {
			if core.RelPkg(fn) != vm || isTestHelper(c, fn) || fn == c.Fn(vm+".intPool.put") {
				continue
			}
			for _, ci := range core.CallsIn(fn, put) {
				nPut++
				// the variadic slice: every element stored into it
				a := ci.Common().Args
				if len(a) < 2 {
					continue
				}
				var elems []ssa.Value
				if sl, ok := a[1].(*ssa.Slice); ok {
					if al, ok := sl.X.(*ssa.Alloc); ok {
						for _, r := range *al.Referrers() {
							if ia, ok := r.(*ssa.IndexAddr); ok {
								for _, rr := range *ia.Referrers() {
									if st, ok := rr.(*ssa.Store); ok && st.Addr == ssa.Value(ia) {
										elems = append(elems, st.Val)
									}
								}
							}
						}
					}
				}
				if len(elems) == 0 {
					elems = append(elems, a[1]) // put(xs...) with an existing slice: judged as a whole
				}
				for _, e := range elems {
					nArg++
					if owned(e, 0) {
						continue
					}
					name := shortFn(fn)
					seq[name]++
					c.Check("intPool.put(owned)@"+name+seqSuffix(seq[name]), "alias-write", false, ci.Pos(), "%s recycles an integer that is not known to belong to the frame (popped, pooled or freshly made)", name)
				}
			}
		}
		c.Floor("intPool.put/sites", nPut, 40)
		c.Note("intPool.put: %d call sites, %d recycled values, all owned unless reported", nPut, nArg)
	})

	c.Clause("C16.10", "a price is never a wrapped product: in the pricing functions of the VM (jump-table gas functions, memoryGasCost, callGas, RequiredGas of the native contracts) a uint64 multiplication has a constant operand or operands bounded by a dominating comparison; everything else goes through math.SafeMul or big.Int (a product that wraps to 0 makes an arbitrarily large native-contract run free)")
	c.Run("no-raw-gas-product", func() { c16NoRawGasProduct(c) })

	c.Clause("C16.11", "no byte code crashes the interpreter through an unchecked offset: Memory.Get and Memory.GetPtr slice the store only on the size ≠ 0 edge of a test of their size parameter (memory is reserved, and the offset thereby checked, only for operands that have a length)")
	c.Run("memory-zero-size-first", func() { c16MemoryZeroSizeFirst(c) })

	c.Clause("C16.12", "a read-only call changes nothing that a later call could see: every TxProcessor.ReadContract request executes on a manager made by NewReadOnlyManager for that request")
	c.Run("read-calls-start-fresh", func() { c16ReadCallsStartFresh(c) })

	c.Clause("C16.9", "a failed call leaves the state as it was only if undo is exact: the change-journal clauses of C07 (undo covers do, undo/redo write through the journalling sibling's setters, old values recorded before the write) are evaluated here as well")
	c07(c)

	c.NotDecidedf("termination and gas ≤ limit as arithmetic facts (that costs are positive, that the 63/64 forwarding and the refund never exceed what was deducted, absence of uint64 wrap-around in gas arithmetic)")
	c.NotDecidedf("correctness of individual opcodes and gas functions (stack effects, memory bounds inside an operation, that an operation's declared stack requirement matches what it pops)")
	c.NotDecidedf("precompile behaviour on odd inputs (panics inside bn256/modexp/json decoding); only their gas bracket and the closed set of state-writing precompiles are decided; setRewardValue writes storage without consulting readOnly and relies on the caller == RewardManager gate in run()")
	c.NotDecidedf("that RevertToSnapshot restores the state exactly and does not itself panic (C07); error returns of TransferAssetTx between the snapshot and run (equity bookkeeping, C12); equality of results across runs as values")
}

// ---------------------------------------------------------------------------------------------------------------------

func uniq(in []string) []string {
	seen := map[string]bool{}
	var out []string
	for _, s := range in {
		if !seen[s] {
			seen[s] = true
			out = append(out, s)
		}
	}
	sort.Strings(out)
	return out
}

func isUint64(t types.Type) bool {
	b, ok := t.Underlying().(*types.Basic)
	return ok && b.Kind() == types.Uint64
}

func fieldOfStruct(f *types.Var, n *types.Named) bool {
	st, ok := n.Underlying().(*types.Struct)
	if !ok {
		return false
	}
	for i := 0; i < st.NumFields(); i++ {
		if st.Field(i) == f {
			return true
		}
	}
	return false
}

// addrRoot strips field and element selections from an address.
func addrRoot(v ssa.Value) ssa.Value {
	for i := 0; i < 8; i++ {
		switch x := v.(type) {
		case *ssa.FieldAddr:
			v = x.X
			continue
		case *ssa.IndexAddr:
			v = x.X
			continue
		}
		break
	}
	return v
}

func isAllocRoot(v ssa.Value) bool { _, ok := addrRoot(v).(*ssa.Alloc); return ok }

// isLoadOfOrSame: v is the struct held at base (a load of the cell / pointer) or base itself.
func isLoadOfOrSame(v, base ssa.Value) bool {
	if v == base {
		return true
	}
	if u, ok := v.(*ssa.UnOp); ok && u.Op == token.MUL && u.X == base {
		return true
	}
	return false
}

// tableIndexOf: base is the local copy of (or the pointer to) a table element `tbl[i]`; returns i.
func tableIndexOf(base ssa.Value) ssa.Value {
	switch b := base.(type) {
	case *ssa.IndexAddr:
		return b.Index
	case *ssa.Alloc:
		var idx ssa.Value
		n := 0
		if b.Referrers() == nil {
			return nil
		}
		for _, r := range *b.Referrers() {
			st, ok := r.(*ssa.Store)
			if !ok || st.Addr != b {
				continue
			}
			n++
			if ld, ok := st.Val.(*ssa.UnOp); ok && ld.Op == token.MUL {
				if ia, ok := ld.X.(*ssa.IndexAddr); ok {
					idx = ia.Index
				}
			}
		}
		if n == 1 {
			return idx
		}
	case *ssa.UnOp:
		if b.Op == token.MUL {
			if ia, ok := b.X.(*ssa.IndexAddr); ok {
				return ia.Index
			}
		}
	case *ssa.Index:
		return b.Index
	}
	return nil
}

// resultGuarded: result #flagIdx of call ci is tested and every use of result #valIdx lies behind the accepting edge of that
// test, whose rejecting edge only reaches failure returns.
func resultGuarded(ci ssa.CallInstruction, valIdx, flagIdx int, fw core.FailWhen) (bool, string) {
	rs := core.ResultValues(ci)
	if flagIdx >= len(rs) || rs[flagIdx] == nil {
		return false, "the flag is not read"
	}
	flag := rs[flagIdx]
	if k, w := failEdgeOnlyFails(ci, flag, fw, nil); !k {
		return false, w
	}
	val := rs[valIdx]
	if val == nil || val.Referrers() == nil {
		return true, ""
	}
	for _, t := range core.TestsOf(flag, fw) {
		if !core.Dominates(ci, t.If) || t.Fail == t.OK {
			continue
		}
		ib := t.If.Block()
		failReach := reachCut([]*ssa.BasicBlock{t.Fail}, map[*ssa.BasicBlock]bool{ci.Block(): true}, nil)
		all := true
		for _, r := range *val.Referrers() {
			if _, dbg := r.(*ssa.DebugRef); dbg {
				continue
			}
			if phi, ok := r.(*ssa.Phi); ok {
				for i, e := range phi.Edges {
					if e != val {
						continue
					}
					p := phi.Block().Preds[i]
					if p == ib && phi.Block() == t.OK {
						continue
					}
					if ib.Dominates(p) && p != ib && !failReach[p] {
						continue
					}
					all = false
				}
				continue
			}
			rb := r.Block()
			if rb == ib || !ib.Dominates(rb) || failReach[rb] {
				all = false
			}
		}
		if all {
			return true, ""
		}
	}
	return false, "a use of the result is reachable without the accepting outcome of the overflow test"
}

// sizeIsZeroEdge: the If compares m with the constant 0; returns the index of the successor taken when m == 0 (-1: not such a test).
func sizeIsZeroEdge(ifi *ssa.If, m ssa.Value) int {
	bo, ok := ifi.Cond.(*ssa.BinOp)
	if !ok {
		return -1
	}
	isZero := func(v ssa.Value) bool { k, ok := intConstOfF(v); return ok && k == 0 }
	switch {
	case bo.X == m && isZero(bo.Y):
		switch bo.Op {
		case token.GTR, token.NEQ:
			return 1
		case token.EQL, token.LEQ:
			return 0
		}
	case bo.Y == m && isZero(bo.X):
		switch bo.Op {
		case token.LSS, token.NEQ:
			return 1
		case token.EQL, token.GEQ:
			return 0
		}
	}
	return -1
}

// isFieldPlusConst: the store assigns `x.f = x.f <op> k`.
func isFieldPlusConst(st *ssa.Store, f *types.Var, op token.Token, k int64) bool {
	bo, ok := st.Val.(*ssa.BinOp)
	if !ok || bo.Op != op || loadedField(bo.X) != f {
		return false
	}
	v, isK := intConstOfF(bo.Y)
	if !isK || v != k {
		return false
	}
	fa, ok := st.Addr.(*ssa.FieldAddr)
	return ok && core.FieldOf(fa) == f && sameExprF(fa.X, fieldBase(bo.X))
}

// depthExceeds: the comparison is true exactly when field f exceeds (>, or >=) the constant limit.
func depthExceeds(bo *ssa.BinOp, f *types.Var, limit int64) bool {
	isF := func(v ssa.Value) bool {
		for i := 0; i < 3; i++ {
			if cv, ok := v.(*ssa.Convert); ok {
				v = cv.X
				continue
			}
			break
		}
		return loadedField(v) == f
	}
	isL := func(v ssa.Value) bool { k, ok := intConstOfF(v); return ok && k == limit }
	switch bo.Op {
	case token.GTR, token.GEQ:
		return isF(bo.X) && isL(bo.Y)
	case token.LSS, token.LEQ:
		return isF(bo.Y) && isL(bo.X)
	}
	return false
}

// gasArgIndex: position of the (only) uint64 parameter of an EVM call kind at a call site.
func gasArgIndex(ci ssa.CallInstruction) int {
	sig := ci.Common().Signature()
	off := 0
	if sig.Recv() != nil && !ci.Common().IsInvoke() {
		off = 1
	}
	idx := -1
	for i := 0; i < sig.Params().Len(); i++ {
		if isUint64(sig.Params().At(i).Type()) {
			if idx >= 0 {
				return -1
			}
			idx = i + off
		}
	}
	return idx
}

// accountWriteMethods classifies the methods of types.AccountAccessor and vm.AccountManager into mutators and readers. The
// table is frozen; a method that is in neither list fails the anchor so that a new mutator cannot slip past the writes rule.
func accountWriteMethods(c *core.Ctx) (writes []*types.Func, reads int) {
	type tab struct {
		iface string
		w, r  []string
	}
	tabs := []tab{
		{"chain/types.AccountAccessor",
			[]string{"SetVoteFor", "SetVotes", "SetCandidate", "SetCandidateState", "SetBalance", "SetCodeHash", "SetCode", "SetStorageRoot", "SetAssetCodeRoot",
				"SetAssetIdRoot", "SetEquityRoot", "SetStorageState", "SetAssetCode", "SetAssetCodeTotalSupply", "SetAssetCodeState", "SetAssetIdState",
				"SetEquityState", "SetSingers", "PushEvent", "PopEvent", "SetSuicide"},
			[]string{"GetAddress", "GetVersion", "GetNextVersion", "GetVoteFor", "GetVotes", "GetCandidate", "GetCandidateState", "GetBalance", "GetCodeHash",
				"GetCode", "GetStorageRoot", "GetAssetCodeRoot", "GetAssetIdRoot", "GetEquityRoot", "GetStorageState", "GetAssetCode", "GetAssetCodeTotalSupply",
				"GetAssetCodeState", "GetAssetIdState", "GetEquityState", "GetSigners", "GetEvents", "GetSuicide", "IsEmpty", "MarshalJSON"}},
		{"chain/vm.AccountManager", []string{"AddEvent"}, []string{"GetAccount", "Snapshot", "RevertToSnapshot"}},
	}
	for _, t := range tabs {
		it := c.Named(t.iface).Underlying().(*types.Interface)
		cls := map[string]int{}
		for _, n := range t.w {
			cls[n] = 1
		}
		for _, n := range t.r {
			cls[n] = 2
		}
		for i := 0; i < it.NumMethods(); i++ {
			m := it.Method(i)
			switch cls[m.Name()] {
			case 1:
				writes = append(writes, m)
			case 2:
				reads++
			default:
				c.Undecided("classify/"+t.iface+"."+m.Name(), "registry", token.NoPos, "method %s of %s is not classified as reader or mutator in the C16 table", m.Name(), t.iface)
			}
		}
	}
	return
}

func siteName(ci ssa.CallInstruction) string {
	if f := calleeField(ci); f != nil {
		return "Context." + f.Name()
	}
	if o := core.CalleeObj(ci); o != nil {
		return objName(o)
	}
	return "?"
}

// revertsTo: the call is RevertToSnapshot(s) with isSnap(s), or a call of a function of the repository that performs such a
// revert on every path with the snapshot it is handed (a wrapper counts as the operation).
func revertsTo(ci ssa.CallInstruction, revM *types.Func, isSnap func(ssa.Value) bool, depth int) bool {
	a := ci.Common().Args
	if core.SameFamily(core.CalleeObj(ci), revM) {
		return len(a) >= 1 && isSnap(a[len(a)-1])
	}
	sf := core.StaticFn(ci)
	if sf == nil || sf.Blocks == nil || !core.InRepo(sf) || depth > 2 {
		return false
	}
	for _, inner := range core.AllCalls(sf) {
		if _, isDefer := inner.(*ssa.Defer); isDefer {
			continue
		}
		passes := revertsTo(inner, revM, func(v ssa.Value) bool {
			for i, p := range sf.Params {
				if core.Derived(p)[v] && i < len(a) && isSnap(a[i]) {
					return true
				}
			}
			return false
		}, depth+1)
		if !passes {
			continue
		}
		all := true
		for _, r := range core.Returns(sf) {
			if !core.Dominates(inner, r) {
				all = false
			}
		}
		if all {
			return true
		}
	}
	return false
}

// isFailureEvent: the call records the platform's TopicRunFail event.
func isFailureEvent(c *core.Ctx, ci ssa.CallInstruction) bool {
	sf := core.StaticFn(ci)
	if sf == nil || sf != c.Fn("chain/vm.EVM.AddEvent") {
		return false
	}
	g := c.Global("chain/types.TopicRunFail")
	for _, a := range ci.Common().Args {
		if core.SliceHasGlobal(core.Slice(a), g) {
			return true
		}
	}
	return false
}

// enforceShape decides the shape of enforceRestrictions: with readOnly true and the writes attribute true every reachable
// return is an error; and for each opcode constant it names, with readOnly true, op == that constant and the value test true
// every reachable return is an error. Returns the set of opcodes named explicitly.
func enforceShape(c *core.Ctx, er *ssa.Function, writesF *types.Var) map[int64]bool {
	const vm = "chain/vm"
	ro := c.FieldVar(vm+".Interpreter", "readOnly")
	roLoads := fieldLoadsOf(er, ro)
	wLoads := fieldLoadsOf(er, writesF)
	onlyErrors := func(assume func(st *core.PathState)) (bool, bool) {
		st := core.NewPathState()
		assume(st)
		ok, any := true, false
		_, complete := core.ExplorePaths(er.Blocks[0], nil, st, core.PathHooks{Return: func(r *ssa.Return, st *core.PathState) {
			any = true
			if st.IsNil(r.Results[len(r.Results)-1]) != core.No {
				ok = false
			}
		}})
		return ok && any, complete
	}
	ok, complete := onlyErrors(func(st *core.PathState) {
		for _, v := range roLoads {
			st.AssumeBool(v, true)
		}
		for _, v := range wLoads {
			st.AssumeBool(v, true)
		}
	})
	if !complete {
		c.Undecided("enforceRestrictions:readOnly∧writes⇒error", "path-sensitive", er.Pos(), "enforceRestrictions contains a loop")
	} else {
		c.Check("enforceRestrictions:readOnly∧writes⇒error", "path-sensitive", ok && len(roLoads) > 0 && len(wLoads) > 0, er.Pos(), "with readOnly set and operation.writes true every exit of enforceRestrictions must be an error")
	}
	// explicit opcode branches: `op == K` comparisons on the opcode parameter
	explicit := map[int64]bool{}
	if len(er.Params) < 2 {
		return explicit
	}
	opP := er.Params[1]
	backM := c.Method(vm+".Stack", "Back")
	for _, b := range er.Blocks {
		for _, in := range b.Instrs {
			bo, isB := in.(*ssa.BinOp)
			if !isB || bo.Op != token.EQL {
				continue
			}
			var kv ssa.Value
			switch {
			case bo.X == opP:
				kv = bo.Y
			case bo.Y == opP:
				kv = bo.X
			default:
				continue
			}
			k, isK := intConstOfF(kv)
			if !isK {
				continue
			}
			// the value tests: comparisons computed from stack.Back(i)
			var valueTests []ssa.Value
			for _, b2 := range er.Blocks {
				for _, in2 := range b2.Instrs {
					cb, isB := in2.(*ssa.BinOp)
					if isB && cb != bo && core.SliceHasCall(core.Slice(cb), backM) {
						if bt, isBasic := cb.Type().Underlying().(*types.Basic); isBasic && bt.Info()&types.IsBoolean != 0 {
							valueTests = append(valueTests, cb)
						}
					}
				}
			}
			ok, complete := onlyErrors(func(st *core.PathState) {
				for _, v := range roLoads {
					st.AssumeBool(v, true)
				}
				st.AssumeBool(bo, true)
				for _, v := range valueTests {
					if cb := v.(*ssa.BinOp); cb.Op == token.GTR || cb.Op == token.NEQ {
						st.AssumeBool(v, true) // "value is non-zero"
					} else {
						st.AssumeBool(v, false)
					}
				}
			})
			name := fmt.Sprintf("0x%x", k)
			if complete && c.Check("enforceRestrictions:readOnly∧op=="+name+"∧value≠0⇒error", "path-sensitive", ok && len(valueTests) > 0, bo.Pos(), "with readOnly set, the named opcode and a non-zero value every exit of enforceRestrictions must be an error") {
				explicit[k] = true
			}
		}
	}
	return explicit
}

// callValueIndex: the amount opCall hands to EVM.Call is the stack item enforceRestrictions inspects (same depth from the top
// at the time Run calls enforceRestrictions, i.e. before any pop).
func callValueIndex(c *core.Ctx, opName string, fns []*ssa.Function, callFn *ssa.Function, er *ssa.Function) {
	const vm = "chain/vm"
	popM := c.Method(vm+".Stack", "pop")
	backM := c.Method(vm+".Stack", "Back")
	callObj, _ := callFn.Object().(*types.Func)
	// index inspected by enforceRestrictions
	inspected := map[int64]bool{}
	for _, ci := range core.CallsIn(er, backM) {
		a := ci.Common().Args
		if k, ok := intConstOfF(a[len(a)-1]); ok {
			inspected[k] = true
		}
	}
	for _, fn := range fns {
		for _, ci := range core.CallsIn(fn, callObj) {
			a := ci.Common().Args
			value := a[len(a)-1] // EVM.Call(caller, addr, input, gas, value)
			sl := core.Slice(value)
			// pops in execution order: all in the block of the call's dominator chain, straight-line
			pops := core.CallsIn(fn, popM)
			idx := int64(-1)
			straight := true
			for i, p := range pops {
				if i > 0 && !core.Dominates(pops[i-1], p) {
					straight = false
				}
				if !core.Dominates(p, ci) {
					continue
				}
				if sl[p.Value()] {
					if idx >= 0 {
						straight = false // the amount depends on more than one stack item
					}
					idx = int64(i)
				}
			}
			if !straight || idx < 0 {
				c.Undecided("table["+opName+"]:value=stack["+"?"+"]", "value-flow", ci.Pos(), "the stack position of the transferred amount could not be determined (pops are not straight-line)")
				continue
			}
			c.Check("table["+opName+"]:value-item-inspected", "value-flow", inspected[idx], ci.Pos(), "%s transfers the amount popped as stack item %d, enforceRestrictions must inspect stack.Back(%d)", opName, idx, idx)
		}
	}
}

// unwrapForwarder follows thin wrappers: a function whose only call passes its own parameters, in order, to a same-package function
// and whose every return hands back exactly that call's results stands for the function it calls (depth-bounded).
func unwrapForwarder(fn *ssa.Function) *ssa.Function {
	for depth := 0; depth < 3 && fn != nil && fn.Blocks != nil; depth++ {
		calls := core.AllCalls(fn)
		if len(calls) != 1 {
			return fn
		}
		call, ok := calls[0].(*ssa.Call)
		if !ok {
			return fn
		}
		h := core.StaticFn(call)
		if h == nil || h.Pkg != fn.Pkg || h.Blocks == nil || len(call.Call.Args) != len(fn.Params) {
			return fn
		}
		for i, a := range call.Call.Args {
			if a != ssa.Value(fn.Params[i]) {
				return fn
			}
		}
		for _, r := range core.Returns(fn) {
			for i := range r.Results {
				v := core.RetVal(r, i)
				if ex, isEx := v.(*ssa.Extract); isEx {
					if ex.Tuple != ssa.Value(call) || ex.Index != i {
						return fn
					}
				} else if v != ssa.Value(call) {
					return fn
				}
			}
		}
		fn = h
	}
	return fn
}

// c16Revert: clause C16.4 — all-or-nothing in the six EVM entry points. Evaluated under C16, C05 (through c16) and C07.8 (the journal is
// only as good as the pairing of snapshots and reverts around it).
func c16Revert(c *core.Ctx) {
	const vm = "chain/vm"
	entryNames := []string{"Call", "CallCode", "DelegateCall", "StaticCall", "Create", "TransferAssetTx"}
	runObj := c.FuncObj(vm + ".run")
	snapM := c.Method(vm+".AccountManager", "Snapshot")
	revM := c.Method(vm+".AccountManager", "RevertToSnapshot")
	transferF := c.FieldVar(vm+".Context", "Transfer")
	writeObjs, _ := accountWriteMethods(c)
	n := 0
	for _, name := range entryNames {
		fn := c.Fn(vm + ".EVM." + name)
		rc := core.CallsIn(fn, runObj)
		sn := core.CallsIn(fn, snapM)
		if len(rc) != 1 || len(sn) != 1 {
			c.Check("EVM."+name+":snapshot/run-sites", "anchor-resolves", false, fn.Pos(), "EVM.%s must take exactly one snapshot and call run once (%d/%d found)", name, len(sn), len(rc))
			continue
		}
		R, S := rc[0], sn[0]
		snapVals := core.Derived(S.Value())
		// snapshot precedes run and every write of the function
		okOrder := core.Dominates(S, R)
		for _, ci := range core.AllCalls(fn) {
			w := calleeField(ci) == transferF
			o := core.CalleeObj(ci)
			for _, wo := range writeObjs {
				if core.SameFamily(o, wo) {
					w = true
				}
			}
			if sf := core.StaticFn(ci); sf != nil && sf == c.Fn(vm+".EVM.AddEvent") {
				w = true
			}
			if w && !core.Dominates(S, ci) {
				okOrder = false
			}
		}
		c.Check("EVM."+name+":Snapshot≺writes,run", "order", okOrder, S.Pos(), "the snapshot must be taken before the first state write and before run on every path")

		// path-sensitive: an error outcome after run reaches no return without RevertToSnapshot(snapshot)
		var bad []string
		nRet := 0
		hooks := core.PathHooks{
			Instr: func(in ssa.Instruction, st *core.PathState) bool {
				ci, ok := in.(ssa.CallInstruction)
				if !ok {
					return true
				}
				if _, isDefer := in.(*ssa.Defer); isDefer {
					return true
				}
				if revertsTo(ci, revM, func(v ssa.Value) bool { return snapVals[st.Canon(v)] }, 0) {
					return false // path satisfied
				}
				// helper form: h(snapshot, err) reverts when err is non-nil; a return of that very error afterwards is covered
				if sv, ev, is := condRevertCall(ci, revM); is && snapVals[st.Canon(sv)] {
					st.Mark(valKey(st.Canon(ev)))
				}
				return true
			},
			Return: func(r *ssa.Return, st *core.PathState) {
				nRet++
				res := fn.Signature.Results()
				for i := 0; i < res.Len(); i++ {
					if !core.IsErrorType(res.At(i).Type()) {
						continue
					}
					if st.IsNil(r.Results[i]) != core.Yes && !st.Marked(valKey(st.Canon(r.Results[i]))) {
						bad = append(bad, c.Pos(r.Pos()))
					}
				}
			},
		}
		_, complete := core.ExplorePaths(R.Block(), R, nil, hooks)
		if !complete {
			c.Undecided("EVM."+name+":error⇒RevertToSnapshot", "pairing", R.Pos(), "the region after run contains a loop; the pairing is not decided")
			continue
		}
		if c.Check("EVM."+name+":error⇒RevertToSnapshot", "pairing", len(bad) == 0 && nRet > 0, R.Pos(), "a return with a (possibly) non-nil error is reachable after run without RevertToSnapshot(snapshot): %s", strings.Join(uniq(bad), ", ")) {
			n++
		}
	}
	c.Floor("revert/entry-points-paired", n, 6)

	// StaticCall: readOnly
	ro := c.FieldVar(vm+".Interpreter", "readOnly")
	sc := c.Fn(vm + ".EVM.StaticCall")
	rc := core.CallsIn(sc, runObj)
	var set []*ssa.Store
	clears := 0
	for _, st := range fieldStoresIn(sc, ro) {
		if b, ok := core.BoolConst(st.Val); ok && b {
			set = append(set, st)
		} else {
			clears++
		}
	}
	ok := len(rc) == 1 && len(set) >= 1 && clears == 0
	if ok {
		// run is unreachable unless the flag was found set or is set now
		cut := map[[2]*ssa.BasicBlock]bool{}
		for _, v := range fieldLoadsOf(sc, ro) {
			for _, t := range core.TestsOf(v, core.IsTrue) {
				cut[[2]*ssa.BasicBlock{t.If.Block(), t.Fail}] = true // Fail = successor taken when readOnly is already true
			}
		}
		avoid := map[*ssa.BasicBlock]bool{}
		for _, s := range set {
			avoid[s.Block()] = true
			if !core.ReachableAfter(s, rc[0]) {
				ok = false
			}
		}
		if reachCut([]*ssa.BasicBlock{sc.Blocks[0]}, avoid, cut)[rc[0].Block()] {
			ok = false
		}
	}
	c.Check("StaticCall:readOnly-set≺run", "guarded-action", ok, sc.Pos(), "on every path to run the interpreter's readOnly flag is true (found set, or set by StaticCall) and StaticCall never clears it inline")
	// restore: a deferred closure clearing the flag, registered only where the flag was set by this frame
	okR := false
	for _, b := range sc.Blocks {
		for _, in := range b.Instrs {
			d, isD := in.(*ssa.Defer)
			if !isD {
				continue
			}
			mc, isMC := d.Call.Value.(*ssa.MakeClosure)
			if !isMC {
				continue
			}
			cf := mc.Fn.(*ssa.Function)
			sts := fieldStoresIn(cf, ro)
			if len(sts) != 1 {
				continue
			}
			if bv, isC := core.BoolConst(sts[0].Val); !isC || bv {
				continue
			}
			// the reset must be registered only where the flag was found clear: with the "flag is clear" edges of the tests
			// on the flag removed, the defer is unreachable
			cutClear := map[[2]*ssa.BasicBlock]bool{}
			for _, v := range fieldLoadsOf(sc, ro) {
				for _, t := range core.TestsOf(v, core.IsTrue) {
					cutClear[[2]*ssa.BasicBlock{t.If.Block(), t.OK}] = true
				}
			}
			onlyWhenClear := len(cutClear) > 0 && !reachCut([]*ssa.BasicBlock{sc.Blocks[0]}, nil, cutClear)[d.Block()]
			for _, s := range set {
				// registered straight after the set (same block), hence exactly when this frame set the flag
				if s.Block() == d.Block() && core.Dominates(s, d) && onlyWhenClear {
					okR = true
				}
			}
		}
	}
	c.Check("StaticCall:readOnly-restored-iff-set", "pairing", okR, sc.Pos(), "the frame that sets readOnly registers a deferred reset in the same block; a nested static call (flag already set) must not reset it")
	closedFieldWriters(c, "Interpreter.readOnly", ro, "(*"+vm+".EVM).StaticCall", "(*"+vm+".EVM).StaticCall$1")
}
