package rules

import (
	"go/token"
	"go/types"
	"sort"

	"golang.org/x/tools/go/ssa"

	"verif/lint/internal/core"
)

// profilePaths lists the field paths inside t (value structs only) that end in a types.Profile or *types.Profile. stop(n)
// says the named type decodes itself (custom DecodeRLP), so its inside is its own decoder's business. unreachable is set when
// a profile sits behind a pointer/slice/array/map that the generic decoder allocates itself (cannot be pre-allocated).
func profilePaths(t types.Type, profile *types.Named, stop func(*types.Named) bool, prefix []*types.Var, out *[][]*types.Var, unreachable *bool, depth int) {
	if depth > 8 {
		return
	}
	if types.Identical(t, profile) || types.Identical(t, types.NewPointer(profile)) {
		*out = append(*out, append([]*types.Var{}, prefix...))
		return
	}
	if n, ok := t.(*types.Named); ok && stop(n) {
		return
	}
	switch u := t.Underlying().(type) {
	case *types.Struct:
		for i := 0; i < u.NumFields(); i++ {
			profilePaths(u.Field(i).Type(), profile, stop, append(prefix, u.Field(i)), out, unreachable, depth+1)
		}
	case *types.Pointer, *types.Slice, *types.Array, *types.Map:
		var sub [][]*types.Var
		var el types.Type
		switch x := u.(type) {
		case *types.Pointer:
			el = x.Elem()
		case *types.Slice:
			el = x.Elem()
		case *types.Array:
			el = x.Elem()
		case *types.Map:
			el = x.Elem()
		}
		profilePaths(el, profile, stop, nil, &sub, unreachable, depth+1)
		if len(sub) > 0 {
			*unreachable = true
		}
	}
}

func samePath(a, b []*types.Var) bool {
	if len(a) != len(b) {
		return false
	}
	for i := range a {
		if a[i] != b[i] {
			return false
		}
	}
	return true
}

// freshProfile: v is a map made in this function (make(Profile)), or the address of a local that such a map is stored into
// before `before`.
func freshProfile(v ssa.Value, profile *types.Named, before ssa.Instruction) bool {
	if mm, ok := v.(*ssa.MakeMap); ok {
		return types.Identical(mm.Type(), profile)
	}
	if al, ok := v.(*ssa.Alloc); ok && al.Referrers() != nil {
		for _, r := range *al.Referrers() {
			if st, ok := r.(*ssa.Store); ok && st.Addr == ssa.Value(al) && core.Dominates(st, before) {
				if mm, ok := st.Val.(*ssa.MakeMap); ok && types.Identical(mm.Type(), profile) {
					return true
				}
			}
		}
	}
	return false
}

func c14Extras(c *core.Ctx) {
	c.Clause("C14.7", "necessary conditions found while reading: (a) every reflective decode into a value that holds a types.Profile pre-allocates the map (Profile.DecodeRLP writes into it; a nil map panics on the first pair); (b) every wire message code is decoded into the type it is encoded from; (c) the JSON codec of txdata (box payloads) carries every field, name to name, in both directions")

	c.Run("profile-prealloc", func() {
		profile := c.Named(c14Types + ".Profile")
		decI := c.Named(c14Rlp + ".Decoder").Underlying().(*types.Interface)
		stop := func(n *types.Named) bool { return !types.Identical(n, profile) && implementsIface(n, decI) }
		targets := []*types.Func{c.Method(c14Rlp+".Stream", "Decode"), c.FuncObj(c14Rlp + ".DecodeBytes"), c.FuncObj(c14Rlp + ".Decode"), c.Method("network/p2p.Msg", "Decode")}
		n := 0
		for _, s := range c.CallSites(targets...) {
			if isTestHelper(c, s.Caller) || core.RelPkg(s.Caller) == c14Rlp {
				continue
			}
			a := s.Instr.Common().Args
			ptr := ifaceOperand(a[len(a)-1])
			if ptr == nil {
				continue
			}
			var paths [][]*types.Var
			unreachable := false
			profilePaths(deref(ptr.Type()), profile, stop, nil, &paths, &unreachable, 0)
			if len(paths) == 0 && !unreachable {
				continue
			}
			n++
			who := core.FuncName(s.Caller)
			ok := !unreachable
			missing := ""
			for _, p := range paths {
				found := false
				for _, b := range s.Caller.Blocks {
					for _, in := range b.Instrs {
						st, isSt := in.(*ssa.Store)
						if !isSt || !core.Dominates(st, s.Instr) {
							continue
						}
						r, sp := addrPath(st.Addr)
						if r == ptr && samePath(sp, p) && freshProfile(st.Val, profile, s.Instr) {
							found = true
						}
					}
				}
				if !found {
					ok = false
					for _, f := range p {
						missing += "." + f.Name()
					}
					if len(p) == 0 {
						missing += "(the target itself)"
					}
					missing += " "
				}
			}
			c.Check("profile-preallocated@"+who, "decode-target-prepared", ok, s.Instr.Pos(), "%s decodes into a %s; every Profile inside must be make()-d before the call (unreachable-behind-pointer=%v, not prepared: %s)", who, typeStr(deref(ptr.Type())), unreachable, orNone(missing))
		}
		c.Exactly("decode-sites-holding-a-profile", n, 4)
	})

	c.Run("wire-pairing", func() {
		writeMsg := c.Method("network/p2p.IPeer", "WriteMsg")
		encToBytes := c.FuncObj(c14Rlp + ".EncodeToBytes")
		msgDecode := c.Method("network/p2p.Msg", "Decode")
		codeT := c.Named("network/p2p.MsgCode")
		codeName := map[int64]string{}
		sc := c.Pkg("network/p2p").Scope()
		for _, nm := range sc.Names() {
			if k, ok := sc.Lookup(nm).(*types.Const); ok && types.Identical(k.Type(), codeT) {
				v, _ := constInt(k)
				codeName[v] = nm
			}
		}
		// send side
		sent := map[int64][]types.Type{}
		for _, s := range c.CallSites(writeMsg) {
			if isTestHelper(c, s.Caller) || core.RelPkg(s.Caller) != "network" {
				continue
			}
			a := s.Instr.Common().Args
			k, isC := intConstOf(a[len(a)-2])
			if !isC {
				continue
			}
			for v := range core.Slice(a[len(a)-1]) {
				if ci, ok := v.(ssa.CallInstruction); ok && core.SameFamily(core.CalleeObj(ci), encToBytes) {
					if x := ifaceOperand(ci.Common().Args[0]); x != nil {
						sent[k] = append(sent[k], derefAll(x.Type()))
					}
				}
			}
		}
		// receive side: the dispatch switch of ProtocolManager.work
		work := c.Fn("network.ProtocolManager.work")
		codeField := c.FieldVar("network/p2p.Msg", "Code")
		recv := map[int64][]types.Type{}
		handlerOf := map[int64]string{}
		for _, b := range work.Blocks {
			if len(b.Instrs) == 0 {
				continue
			}
			iff, ok := b.Instrs[len(b.Instrs)-1].(*ssa.If)
			if !ok {
				continue
			}
			cmp, ok := iff.Cond.(*ssa.BinOp)
			if !ok || cmp.Op != token.EQL {
				continue
			}
			x, y := cmp.X, cmp.Y
			if _, isC := intConstOf(x); isC {
				x, y = y, x
			}
			k, isC := intConstOf(y)
			if !isC || !core.SliceHasField(core.Slice(x), codeField) {
				continue
			}
			for _, in := range b.Succs[0].Instrs {
				ci, ok := in.(ssa.CallInstruction)
				if !ok {
					continue
				}
				h := core.StaticFn(ci)
				if h == nil || core.RelPkg(h) != "network" {
					continue
				}
				handlerOf[k] = shortFn(h)
				for _, d := range core.CallsInDeep(h, msgDecode) {
					if p := ifaceOperand(d.Common().Args[1]); p != nil {
						recv[k] = append(recv[k], derefAll(p.Type()))
					}
				}
			}
		}
		// the protocol handshake is exchanged outside the dispatch switch
		hs, _ := constInt(c.Const("network/p2p.ProHandshakeMsg"))
		for _, ci := range core.CallsIn(c.Fn("network.ProtocolHandshake.Bytes"), encToBytes) {
			if x := ifaceOperand(ci.Common().Args[0]); x != nil {
				sent[hs] = append(sent[hs], derefAll(x.Type()))
			}
		}
		hsFn := c.Fn("network.peer.Handshake")
		for _, d := range core.CallsInDeep(hsFn, msgDecode) {
			if p := ifaceOperand(d.Common().Args[1]); p != nil {
				recv[hs] = append(recv[hs], derefAll(p.Type()))
				handlerOf[hs] = shortFn(hsFn)
			}
		}
		var ks []int64
		for k := range codeName {
			ks = append(ks, k)
		}
		sort.Slice(ks, func(i, j int) bool { return ks[i] < ks[j] })
		nPairs := 0
		for _, k := range ks {
			s, r := sent[k], recv[k]
			if len(s) == 0 || len(r) == 0 {
				if len(s)+len(r) > 0 {
					c.Note("C14.7: message %s has only one side in this repository (sent as %v, decoded as %v)", codeName[k], typeStrs(s), typeStrs(r))
				}
				continue
			}
			nPairs++
			ok := true
			for _, a := range s {
				for _, b := range r {
					if !types.Identical(a, b) {
						ok = false
					}
				}
			}
			c.Check("wire:"+codeName[k], "codec-wire-type", ok, work.Pos(), "message %s is encoded from %v and must be decoded (in %s) into the same type, got %v", codeName[k], typeStrs(s), handlerOf[k], typeStrs(r))
		}
		c.Exactly("wire-message-pairs", nPairs, 12)
	})

	c.Run("txdata-json", func() {
		td := c.Struct(c14Types + ".txdata")
		// MarshalJSON: every field of the receiver is copied into the same-named field of the local wire struct handed to json.Marshal
		mf := c.Fn(c14Types + ".txdata.MarshalJSON")
		var encCell *ssa.Alloc
		for _, ci := range core.CallsIn(mf, c.StdFunc("encoding/json", "Marshal")) {
			encCell = loadOfAlloc(ifaceOperand(ci.Common().Args[0]))
		}
		uf := c.Fn(c14Types + ".txdata.UnmarshalJSON")
		var decCell *ssa.Alloc
		for _, ci := range core.CallsIn(uf, c.StdFunc("encoding/json", "Unmarshal")) {
			decCell = loadOfAlloc(ifaceOperand(ci.Common().Args[1]))
			ok, why := core.CallHeeded(ci, core.ErrNonNil, nil)
			c.Check("txdata.UnmarshalJSON→json.Unmarshal", "heeded-guard", ok, ci.Pos(), "a JSON error is returned: %s", orOK(why))
		}
		if encCell == nil || decCell == nil {
			c.Check("txdata-json:wire-structs", "codec-wire-type", false, mf.Pos(), "the local wire structs handed to json.Marshal / json.Unmarshal were not found")
			return
		}
		encS, _ := deref(encCell.Type()).Underlying().(*types.Struct)
		decS, _ := deref(decCell.Type()).Underlying().(*types.Struct)
		if encS == nil || decS == nil {
			c.Check("txdata-json:wire-structs", "codec-wire-type", false, mf.Pos(), "the JSON wire values are not structs")
			return
		}
		encW := map[string][]ssa.Value{}
		for _, w := range fieldWrites(mf, func(v ssa.Value) bool { return v == ssa.Value(encCell) }) {
			encW[w.Top.Name()] = append(encW[w.Top.Name()], w.Vals...)
		}
		decW := map[string][]ssa.Value{}
		for _, w := range fieldWrites(uf, func(v ssa.Value) bool { return v == ssa.Value(uf.Params[0]) }) {
			decW[w.Top.Name()] = append(decW[w.Top.Name()], w.Vals...)
		}
		n := 0
		for i := 0; i < td.NumFields(); i++ {
			f := td.Field(i).Name()
			n++
			// marshal
			got := topFieldsRead(unionSlices(encW[f]), nil, td)
			okTag := structField(encS, f) != nil && structField(decS, f) != nil && jsonName(encS, f) == jsonName(td, f) && jsonName(decS, f) == jsonName(td, f)
			c.Check("txdata.MarshalJSON#"+f, "codec-field", structField(encS, f) != nil && got[f] && len(got) == 1, mf.Pos(), "JSON field %s must be written from txdata.%s only (writes=%d, reads %v)", f, f, len(encW[f]), core.SortedKeys(got))
			got = topFieldsRead(unionSlices(decW[f]), decCell, decS)
			c.Check("txdata.UnmarshalJSON#"+f, "codec-field", got[f] && len(got) == 1, uf.Pos(), "txdata.%s must be assigned from the parsed JSON field %s only (writes=%d, reads %v)", f, f, len(decW[f]), core.SortedKeys(got))
			c.CheckTrivial("txdata-json-name#"+f, "codec-tag", okTag, td.Field(i).Pos(), "field %s carries the same JSON name %q in txdata and in both generated wire structs", f, jsonName(td, f))
		}
		c.Exactly("txdata/json-fields", n, 17)
	})
}

func jsonName(st *types.Struct, field string) string {
	for i := 0; i < st.NumFields(); i++ {
		if st.Field(i).Name() == field {
			return structTagGet(st.Tag(i), "json")
		}
	}
	return ""
}

// derefAll strips every pointer level (the reflective codec follows pointers on both sides).
func derefAll(t types.Type) types.Type {
	for {
		p, ok := t.Underlying().(*types.Pointer)
		if !ok {
			return t
		}
		t = p.Elem()
	}
}

// c14NoInvention: custom JSON decoders of consensus objects do not fill a field from another field of the value they decode (a default that
// the encoder does not mirror makes the value change under its own round trip).
func c14NoInvention(c *core.Ctx) {
	c.Run("decoder-invents-nothing", func() {
		n := 0
		for _, spec := range []string{"chain/types.Transaction.UnmarshalJSON", "chain/types.Transaction.DecodeRLP", "chain/types.Header.DecodeRLP", "chain/types.ChangeLog.DecodeRLP"} {
			fn := c.Fn(spec)
			n++
			var bad ssa.Instruction
			for _, b := range fn.Blocks {
				for _, in := range b.Instrs {
					st, ok := in.(*ssa.Store)
					if !ok {
						continue
					}
					dst, isFA := st.Addr.(*ssa.FieldAddr)
					if !isFA {
						continue
					}
					// the stored value IS (the address of, or a copy of) a sibling field of the same struct value; a value merely computed with
					// the help of a sibling (a decoder chosen by the type field) is not meant
					v := st.Val
					for {
						switch x := v.(type) {
						case *ssa.ChangeType:
							v = x.X
							continue
						case *ssa.Convert:
							v = x.X
							continue
						case *ssa.UnOp:
							if x.Op == token.MUL {
								v = x.X
								continue
							}
						}
						break
					}
					if src, isSrc := v.(*ssa.FieldAddr); isSrc && src != dst && src.X == dst.X && src.Field != dst.Field {
						bad = st
					}
				}
			}
			where := ""
			if bad != nil {
				where = c.Pos(bad.Pos())
			}
			c.Check("no-sibling-default/"+shortFn(fn), "codec-agreement", bad == nil, fn.Pos(), "%s fills no field of the decoded value from another field of that value (offending store: %s)", shortFn(fn), where)
		}
		c.Floor("custom-decoders-scanned", n, 4)
	})
}
