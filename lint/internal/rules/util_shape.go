package rules

// util_shape.go — rule-level helpers for "shape" clauses: objects built by a constructor / clone, freshness of a field of the
// built object, index-preserving element fills, closure resolution inside a function family.

import (
	"go/token"
	"go/types"

	"golang.org/x/tools/go/ssa"

	"verif/lint/internal/core"
)

type builtObj struct {
	Fn    *ssa.Function
	Alloc *ssa.Alloc
}

// phiSources expands phis (and result spills) of v.
func phiSources(v ssa.Value) []ssa.Value {
	seen := map[ssa.Value]bool{}
	var out []ssa.Value
	var walk func(x ssa.Value)
	walk = func(x ssa.Value) {
		x = core.ResolveSpill(x)
		if x == nil || seen[x] {
			return
		}
		seen[x] = true
		if p, ok := x.(*ssa.Phi); ok {
			for _, e := range p.Edges {
				walk(e)
			}
			return
		}
		if ct, ok := x.(*ssa.ChangeType); ok {
			walk(ct.X)
			return
		}
		out = append(out, x)
	}
	walk(v)
	return out
}

// builtObjects: every non-nil value fn returns (result 0) is an object allocated by fn itself or by a repository constructor
// it calls (followed up to two levels). Returns where each object is allocated.
func builtObjects(fn *ssa.Function, depth int) (objs []builtObj, ok bool) {
	if fn == nil || fn.Blocks == nil || depth > 2 {
		return nil, false
	}
	ok = true
	for _, r := range core.Returns(fn) {
		if len(r.Results) == 0 {
			return nil, false
		}
		for _, s := range phiSources(r.Results[0]) {
			switch x := s.(type) {
			case *ssa.Alloc:
				objs = append(objs, builtObj{fn, x})
			case *ssa.Const:
				if !core.IsNilConst(x) {
					ok = false
				}
			case *ssa.Call:
				g := x.Call.StaticCallee()
				if x.Call.IsInvoke() || g == nil || !core.InRepo(g) {
					ok = false
					continue
				}
				sub, k := builtObjects(g, depth+1)
				if !k {
					ok = false
				}
				objs = append(objs, sub...)
			default:
				ok = false
			}
		}
	}
	return objs, ok
}

// freshValue: v is memory allocated right here: make(...), a composite literal / new, nil, or the result of a repository
// constructor that returns a freshly built object.
func freshValue(v ssa.Value) bool {
	for _, s := range phiSources(v) {
		switch x := s.(type) {
		case *ssa.MakeSlice, *ssa.MakeMap, *ssa.Alloc:
		case *ssa.Const:
			if !core.IsNilConst(x) {
				return false
			}
		case *ssa.Slice:
			al, ok := x.X.(*ssa.Alloc)
			if !ok {
				return false
			}
			if _, isArr := al.Type().Underlying().(*types.Pointer).Elem().Underlying().(*types.Array); !isArr {
				return false
			}
		case *ssa.Call:
			if core.BuiltinName(x) == "append" {
				if !freshValue(x.Call.Args[0]) {
					return false
				}
				continue
			}
			g := x.Call.StaticCallee()
			if x.Call.IsInvoke() || g == nil {
				return false
			}
			if _, ok := builtObjects(g, 1); !ok {
				return false
			}
		default:
			return false
		}
	}
	return true
}

// storesToField lists the stores to field f of object obj inside fn.
func storesToField(fn *ssa.Function, obj ssa.Value, f *types.Var) []*ssa.Store {
	var out []*ssa.Store
	if obj.Referrers() == nil {
		return nil
	}
	for _, r := range *obj.Referrers() {
		fa, ok := r.(*ssa.FieldAddr)
		if !ok || fa.X != obj || core.FieldOf(fa) != f || fa.Referrers() == nil {
			continue
		}
		for _, r2 := range *fa.Referrers() {
			if st, ok := r2.(*ssa.Store); ok && st.Addr == fa {
				out = append(out, st)
			}
		}
	}
	return out
}

// cloneFieldFresh: the object returned by clone function fn is newly allocated and its field f is never assigned memory that
// the source object also references (every assigned value is itself freshly allocated).
func cloneFieldFresh(c *core.Ctx, fn *ssa.Function, f *types.Var) bool {
	key := shortFn(fn) + ":fresh(" + f.Name() + ")"
	objs, ok := builtObjects(fn, 0)
	if !ok || len(objs) == 0 {
		return c.Check(key, "fresh-copy", false, fn.Pos(), "%s must return an object it allocates itself (directly or through a constructor)", shortFn(fn))
	}
	n := 0
	for _, o := range objs {
		for _, st := range storesToField(o.Fn, o.Alloc, f) {
			n++
			if !freshValue(st.Val) {
				return c.Check(key, "fresh-copy", false, st.Pos(), "field %s of the copy is assigned memory shared with the source; the copy must own it", f.Name())
			}
		}
	}
	return c.Check(key, "fresh-copy", true, fn.Pos(), "%s returns a new object whose field %s is freshly allocated (%d assignment(s))", shortFn(fn), f.Name(), n)
}

// elemLoadS9: v is `*(&s[i])` (or s[i] of an array value) → (s, i).
func elemLoadS9(v ssa.Value) (s, i ssa.Value, ok bool) {
	switch x := v.(type) {
	case *ssa.UnOp:
		if x.Op == token.MUL {
			if ia, isIA := x.X.(*ssa.IndexAddr); isIA {
				return ia.X, ia.Index, true
			}
		}
	case *ssa.Index:
		return x.X, x.Index, true
	}
	return nil, nil, false
}

// indexFill checks, inside fn, that the slice satisfying isDst is filled by exactly one store dst[i] = src[i] (via == nil) or
// dst[i] = via(src[i]) (a call whose receiver / first argument is the i-th element) in a loop that runs i over 0..len(src)-1
// with no other exit and executes the store on every iteration. isSrc recognises the source slice. Returns the store.
func indexFill(c *core.Ctx, key string, fn *ssa.Function, isDst, isSrc func(ssa.Value) bool, via []*types.Func, what string) *ssa.Store {
	var fills []*ssa.Store
	for _, b := range fn.Blocks {
		for _, in := range b.Instrs {
			st, ok := in.(*ssa.Store)
			if !ok {
				continue
			}
			if ia, ok := st.Addr.(*ssa.IndexAddr); ok && isDst(ia.X) {
				fills = append(fills, st)
			}
		}
	}
	if len(fills) != 1 {
		c.Check(key, "index-fill", false, fn.Pos(), "%s: exactly one element assignment into the destination expected, %d found", what, len(fills))
		return nil
	}
	st := fills[0]
	idx := st.Addr.(*ssa.IndexAddr).Index
	why := ""
	il, ok := core.FullIndexLoop(idx)
	switch {
	case !ok:
		why = "the index is not the induction variable of a loop from 0 in steps of 1 whose only exit is the bound test"
	case !il.EveryIteration(st):
		why = "the assignment is skipped on some iteration"
	default:
		bs, isLen := core.LenArg(il.Bound)
		if !isLen || !isSrc(bs) {
			why = "the loop bound is not the length of the source list"
			break
		}
		val := st.Val
		if len(via) > 0 {
			call, isCall := val.(*ssa.Call)
			okCallee := false
			if isCall {
				for _, v := range via {
					if core.SameFamily(core.CalleeObj(call), v) {
						okCallee = true
					}
				}
			}
			if !okCallee || len(call.Call.Args) == 0 {
				why = "the stored value is not the result of the element's designated method"
				break
			}
			if call.Call.IsInvoke() {
				val = call.Call.Value
			} else {
				val = call.Call.Args[0]
			}
		}
		ok2 := false
		for d := range derivedBack(val) {
			if s, i, isEl := elemLoadS9(d); isEl && i == idx && isSrc(s) {
				ok2 = true
			}
		}
		if !ok2 {
			why = "the stored value is not computed from the source element at the same index"
		}
	}
	c.Check(key, "index-fill", why == "", st.Pos(), "%s: element i of the destination comes from element i of the source, for every i: %s", what, orOK(why))
	if why != "" {
		return nil
	}
	return st
}

// derivedBack: values v is a plain copy of (through conversions, local cells and single-edge phis): backwards direction.
func derivedBack(v ssa.Value) map[ssa.Value]bool {
	out := map[ssa.Value]bool{}
	var walk func(x ssa.Value, d int)
	walk = func(x ssa.Value, d int) {
		if x == nil || out[x] || d > 8 {
			return
		}
		out[x] = true
		switch y := x.(type) {
		case *ssa.ChangeType:
			walk(y.X, d+1)
		case *ssa.MakeInterface:
			walk(y.X, d+1)
		case *ssa.ChangeInterface:
			walk(y.X, d+1)
		case *ssa.UnOp:
			if y.Op == token.MUL {
				if cell, ok := y.X.(*ssa.Alloc); ok && cell.Referrers() != nil {
					var sts []*ssa.Store
					for _, r := range *cell.Referrers() {
						if st, ok := r.(*ssa.Store); ok && st.Addr == cell {
							sts = append(sts, st)
						}
					}
					if len(sts) == 1 {
						walk(sts[0].Val, d+1)
					}
				}
			}
		}
	}
	walk(v, 0)
	return out
}

// familyFuncWith returns the functions of root's family (root and nested closures) for which pred holds.
func familyFuncWith(root *ssa.Function, pred func(*ssa.Function) bool) []*ssa.Function {
	var out []*ssa.Function
	for _, f := range core.FamilyFuncs(root) {
		if pred(f) {
			out = append(out, f)
		}
	}
	return out
}

// callsResolvingTo lists the calls in fn (not its closures) that invoke target, directly or as a closure bound to a local variable.
func callsResolvingTo(fn *ssa.Function, target *ssa.Function) []ssa.CallInstruction {
	var out []ssa.CallInstruction
	for _, ci := range core.AllCalls(fn) {
		if core.StaticFn(ci) == target || core.ClosureCallee(ci) == target {
			out = append(out, ci)
		}
	}
	return out
}

// rejectsOnFail: the call's result is tested and the rejecting edge of that test leads only to failing returns (until the call
// is executed again). Unlike core.CallHeeded it does not demand that every success exit of the function depends on the call,
// so it fits guards inside loops and functions with an early "nothing to do" success exit.
func rejectsOnFail(ci ssa.CallInstruction, fw core.FailWhen) (bool, string) {
	v := core.GuardValue(ci, fw)
	if v == nil {
		return false, "the result is not used"
	}
	fn := ci.Parent()
	// the value itself, or a phi that merges it with the results of sibling calls (`if a { err = f() } else { err = g() }; if err != nil`)
	vals := []ssa.Value{v}
	for d := range core.Derived(v) {
		if d.Referrers() == nil {
			continue
		}
		for _, r := range *d.Referrers() {
			if p, ok := r.(*ssa.Phi); ok {
				vals = append(vals, p)
			}
		}
	}
	tested := false
	for _, val := range vals {
		for _, t := range core.TestsOf(val, fw) {
			tested = true
			if t.Fail == t.OK {
				continue
			}
			if val == v {
				if !core.Dominates(ci, t.If) {
					continue
				}
			} else {
				// merged: the call cannot leave the function (or come round again) without passing this test
				avoid := map[*ssa.BasicBlock]bool{t.If.Block(): true}
				escapes := false
				for _, s := range ci.Block().Succs {
					for _, ret := range core.Returns(fn) {
						if core.ReachAvoiding(s, ret.Block(), avoid) {
							escapes = true
						}
					}
					if core.ReachAvoiding(s, ci.Block(), avoid) {
						escapes = true
					}
				}
				if escapes || ci.Block() == t.If.Block() {
					continue
				}
			}
			all, any := true, false
			for _, ret := range core.Returns(fn) {
				if core.ReachAvoiding(t.Fail, ret.Block(), map[*ssa.BasicBlock]bool{ci.Block(): true}) {
					any = true
					var fv map[ssa.Value]bool
					if fw == core.ErrNonNil {
						fv = core.Derived(val)
					}
					if core.ClassifyReturn(ret, fv, nil) != core.RetFailure {
						all = false
					}
				}
			}
			if any && all {
				return true, ""
			}
		}
	}
	if !tested {
		return false, "the result is never tested"
	}
	return false, "after a rejecting outcome a possibly successful return is reachable"
}
