package rules

import (
	"go/constant"
	"go/token"
	"go/types"

	"golang.org/x/tools/go/ssa"

	"verif/lint/internal/core"
)

func init() { register("C17", c17) }

// shaSeq: inside fn the Keccak state held in field shaField is Reset, then written exactly once with a value accepted by
// written, then summed; returns the Sum call (nil + reason otherwise).
func shaSeq(c *core.Ctx, fn *ssa.Function, shaField *types.Var, written func(ssa.Value) bool) (ssa.CallInstruction, string) {
	reset, write, sum := c.StdFunc("hash", "Hash.Reset"), c.StdFunc("hash", "Hash.Write"), c.StdFunc("hash", "Hash.Sum")
	onSha := func(ci ssa.CallInstruction) bool {
		cc := ci.Common()
		if !cc.IsInvoke() {
			return false
		}
		_, f, isLd := core.FieldLoad(cc.Value)
		return isLd && f == shaField
	}
	var rs, ws, ss []ssa.CallInstruction
	for _, ci := range core.AllCalls(fn) {
		if !onSha(ci) {
			continue
		}
		switch core.CalleeObj(ci) {
		case reset:
			rs = append(rs, ci)
		case write:
			ws = append(ws, ci)
		case sum:
			ss = append(ss, ci)
		}
	}
	if len(ws) != 1 || len(ss) != 1 {
		return nil, "expected exactly one Write and one Sum on the hash state"
	}
	w, s := ws[0], ss[0]
	if !written(w.Common().Args[0]) {
		return nil, "the bytes written into the hash state are not the designated bytes"
	}
	okReset := false
	for _, r := range rs {
		if core.Dominates(r, w) && core.SameLoc(r.Common().Value, w.Common().Value) {
			okReset = true
		}
	}
	if !okReset {
		return nil, "the hash state is not Reset before it is written (pooled hashers carry old state)"
	}
	if !core.Dominates(w, s) || !core.SameLoc(w.Common().Value, s.Common().Value) {
		return nil, "Sum is not taken from the state that was just written"
	}
	return s, ""
}

// rangeOver finds the `for k, v := range x.field` loop of fn: returns the Next instruction and the loop header.
func rangeOver(fn *ssa.Function, field *types.Var) (*ssa.Next, *ssa.BasicBlock) {
	for _, b := range fn.Blocks {
		for _, in := range b.Instrs {
			nx, ok := in.(*ssa.Next)
			if !ok {
				continue
			}
			rg, ok := nx.Iter.(*ssa.Range)
			if !ok {
				continue
			}
			if _, f, isLd := core.FieldLoad(rg.X); isLd && f == field {
				return nx, b
			}
		}
	}
	return nil, nil
}

// c17SharedAppend: appends in package store/trie whose first argument is not a slice the function made, confirmed by reading.
var c17SharedAppend = map[string]string{}

func c17(c *core.Ctx) {
	const tr = "store/trie"
	const acct = "chain/account"

	// -----------------------------------------------------------------------------------------
	c.Clause("C17.1", "keys are transformed the same way on every access: SecureTrie.TryGet/TryUpdate/TryDelete pass hashKey(key parameter) to the inner trie, hashKey is Keccak(Reset; Write(key); Sum); "+
		"Trie.TryGet/TryUpdate/TryDelete pass keybytesToHex(key parameter) down and TryUpdate/TryDelete install the returned root")
	c.Run("secure-keys", func() {
		hashKey := c.Method(tr+".SecureTrie", "hashKey")
		inner := c.FieldVar(tr+".SecureTrie", "trie")
		n := 0
		for _, m := range []string{"TryGet", "TryUpdate", "TryDelete"} {
			fn := c.Fn(tr + ".SecureTrie." + m)
			target := c.Method(tr+".Trie", m)
			calls := core.CallsIn(fn, target)
			hks := core.CallsIn(fn, hashKey)
			ok := len(calls) == 1 && len(hks) == 1
			why := ""
			if !ok {
				why = "expected exactly one inner call and one hashKey call"
			} else {
				args := calls[0].Common().Args
				hk := hks[0].Common().Args
				fa, isFA := args[0].(*ssa.FieldAddr)
				switch {
				case !isFA || core.FieldOf(fa) != inner || fa.X != fn.Params[0]:
					why = "the inner call is not made on the receiver's own trie"
				case !core.Derived(hks[0].Value())[args[1]]:
					why = "the key handed to the inner trie is not the hashKey result"
				case hk[0] != fn.Params[0] || hk[1] != fn.Params[1]:
					why = "hashKey is not applied to the key parameter"
				case !core.Dominates(hks[0], calls[0]):
					why = "hashKey does not precede the inner call"
				}
				// the ephemeral buffer must not be re-used by a second hashKey before the inner call consumed it: only one call exists
			}
			if c.Check("SecureTrie."+m+":inner("+"hashKey(key))", "sibling-agreement", why == "", fn.Pos(), "SecureTrie.%s must access the inner trie under hashKey(key): %s", m, orOK(why)) {
				n++
			}
		}
		c.Floor("secure-keys/accessors", n, 3)
		hk := c.Fn(tr + ".SecureTrie.hashKey")
		sum, why := shaSeq(c, hk, c.FieldVar(tr+".hasher", "sha"), func(v ssa.Value) bool { return v == hk.Params[1] })
		ok := sum != nil
		if ok {
			ok = false
			for _, r := range core.Returns(hk) {
				if core.Derived(sum.Value())[r.Results[0]] {
					ok = true
				}
			}
			if !ok {
				why = "hashKey does not return the Sum"
			}
		}
		c.Check("SecureTrie.hashKey:Reset≺Write(key)≺Sum→return", "order", ok, hk.Pos(), "hashKey returns Keccak of exactly the key bytes: %s", orOK(why))
	})
	c.Run("trie-keys", func() {
		k2h := c.FuncObj(tr + ".keybytesToHex")
		rootF := c.FieldVar(tr+".Trie", "root")
		n := 0
		for _, e := range []struct {
			m     string
			inner []string
			root  bool
		}{{"TryGet", []string{"tryGet"}, false}, {"TryUpdate", []string{"insert", "delete"}, true}, {"TryDelete", []string{"delete"}, true}} {
			fn := c.Fn(tr + ".Trie." + e.m)
			conv := core.CallsIn(fn, k2h)
			okConv := len(conv) == 1 && conv[0].Common().Args[0] == fn.Params[1]
			c.Check("Trie."+e.m+":keybytesToHex(key)", "sibling-agreement", okConv, fn.Pos(), "Trie.%s converts its key parameter with keybytesToHex exactly once", e.m)
			if !okConv {
				continue
			}
			for _, in := range e.inner {
				target := c.Method(tr+".Trie", in)
				calls := core.CallsIn(fn, target)
				if len(calls) != 1 {
					c.Check("Trie."+e.m+"→"+in, "sibling-agreement", false, fn.Pos(), "Trie.%s must call %s exactly once (%d)", e.m, in, len(calls))
					continue
				}
				ci := calls[0]
				has := false
				for _, a := range ci.Common().Args {
					if core.Derived(conv[0].Value())[a] {
						has = true
					}
				}
				if c.Check("Trie."+e.m+"→"+in+"(hex key)", "sibling-agreement", has, ci.Pos(), "%s receives the converted key", in) {
					n++
				}
				if e.root {
					res := core.ResultValues(ci)
					okRoot := false
					if len(res) >= 2 && res[1] != nil {
						for _, s := range storesToField(fn, fn.Params[0], rootF) {
							if core.Derived(res[1])[s.Val] {
								if k, _ := core.HeededBefore(ci, core.ErrNonNil, s); k {
									okRoot = true
								}
							}
						}
					}
					c.Check("Trie."+e.m+":root←"+in, "value-flow", okRoot, ci.Pos(), "the node returned by %s becomes the trie's root once the error was found nil", in)
				}
			}
		}
		c.Floor("trie-keys/inner-calls", n, 4)
	})

	// -----------------------------------------------------------------------------------------
	c.Clause("C17.2", "writes reach the trie before the root is taken: StorageCache.Update applies every dirty entry (TryDelete for an empty value, else TryUpdate) under its own key, removes it, heeds errors and "+
		"takes tr.Hash() only after the loop; StorageCache.Save refuses while dirty is non-empty or when the committed root differs; Account.updateTrie assigns each of the four roots from its own cache's Update")
	c.Run("storage-update", func() {
		sc := acct + ".StorageCache"
		up := c.Fn(sc + ".Update")
		dirty := c.FieldVar(sc, "dirty")
		getTrie := c.Method(sc, "GetTrie")
		tryUpd, tryDel, hash := c.Method(tr+".SecureTrie", "TryUpdate"), c.Method(tr+".SecureTrie", "TryDelete"), c.Method(tr+".SecureTrie", "Hash")
		nx, header := rangeOver(up, dirty)
		if nx == nil {
			c.Check("Update:range-over-dirty", "order", false, up.Pos(), "StorageCache.Update must range over cache.dirty")
			return
		}
		gts := core.CallsIn(up, getTrie)
		c.Exactly("Update/GetTrie-calls", len(gts), 1)
		var trv ssa.Value
		if len(gts) == 1 {
			trv = core.ResultValues(gts[0])[0]
			c.Check("Update:GetTrie(root)", "value-flow", gts[0].Common().Args[1] == up.Params[1], gts[0].Pos(), "the trie updated is the one opened at the root handed in")
		}
		onTrie := func(ci ssa.CallInstruction) bool { return trv != nil && core.Derived(trv)[ci.Common().Args[0]] }
		var rk, rv ssa.Value
		for _, r := range *nx.Referrers() {
			if e, ok := r.(*ssa.Extract); ok {
				switch e.Index {
				case 1:
					rk = e
				case 2:
					rv = e
				}
			}
		}
		upds, dels := core.CallsIn(up, tryUpd), core.CallsIn(up, tryDel)
		c.Exactly("Update/TryUpdate-calls", len(upds), 1)
		c.Exactly("Update/TryDelete-calls", len(dels), 1)
		body := core.NaturalLoop(header)
		applyBlocks := map[*ssa.BasicBlock]bool{}
		for _, ci := range append(append([]ssa.CallInstruction{}, upds...), dels...) {
			name := objName(core.CalleeObj(ci))
			args := ci.Common().Args
			okKey := rk != nil && core.Slice(args[1])[rk] && onTrie(ci) && body[ci.Block()]
			c.Check("Update:"+name+"(range key)", "value-flow", okKey, ci.Pos(), "%s is applied inside the loop to the opened trie under the key of the dirty entry", name)
			ok, why := rejectsOnFail(ci, core.ErrNonNil)
			c.Check("Update→"+name, "heeded-guard", ok, ci.Pos(), "a failing %s must not yield a root: %s", name, orOK(why))
			applyBlocks[ci.Block()] = true
			heededBefore(c, up, getTrie, core.ErrNonNil, name, []ssa.Instruction{ci})
		}
		for _, ci := range upds {
			c.Check("Update:TryUpdate(range value)", "value-flow", rv != nil && core.Slice(ci.Common().Args[2])[rv], ci.Pos(), "the value written is the dirty entry's value")
		}
		for _, ci := range dels {
			// deletion only for an empty value
			ok := false
			for _, e := range core.DominatingEdges(ci.Block()) {
				cmp, isB := e.If.Cond.(*ssa.BinOp)
				if !isB {
					continue
				}
				la, isLen := core.LenArg(cmp.X)
				z, isC := core.IntConstVal(cmp.Y)
				if isLen && isC && z == 0 && rv != nil && core.Derived(rv)[la] && ((cmp.Op == token.EQL && e.Taken) || (cmp.Op == token.NEQ && !e.Taken) || (cmp.Op == token.GTR && !e.Taken) || (cmp.Op == token.LEQ && e.Taken)) {
					ok = true
				}
			}
			c.Check("Update:TryDelete-only-for-empty-value", "guard-scope", ok, ci.Pos(), "an entry is deleted from the trie only when its dirty value is empty")
		}
		// every iteration applies the entry: from the loop body no path returns to the header without TryUpdate/TryDelete
		okEvery := false
		if body != nil && len(applyBlocks) > 0 {
			avoid := map[*ssa.BasicBlock]bool{}
			for b := range applyBlocks {
				avoid[b] = true
			}
			for _, b := range up.Blocks {
				if !body[b] {
					avoid[b] = true
				}
			}
			okEvery = true
			for _, s := range header.Succs {
				if body[s] && s != header && !avoid[s] && core.ReachAvoiding(s, header, avoid) {
					okEvery = false
				}
			}
		}
		c.Check("Update:every-dirty-entry-applied", "order", okEvery, header.Instrs[0].Pos(), "no iteration over dirty returns to the loop head without TryUpdate or TryDelete")
		// the entry is removed
		nDel := 0
		for _, ci := range core.AllCalls(up) {
			if core.BuiltinName(ci) != "delete" {
				continue
			}
			if _, f, isLd := core.FieldLoad(ci.Common().Args[0]); isLd && f == dirty {
				nDel++
				c.Check("Update:delete(dirty, range key)", "order", rk != nil && core.Slice(ci.Common().Args[1])[rk] && core.EveryIterationOf(header, ci), ci.Pos(), "every applied entry is removed from dirty under its own key on every iteration")
			}
		}
		c.Exactly("Update/deletes-from-dirty", nDel, 1)
		// the root is taken after the loop and returned
		hs := core.CallsIn(up, hash)
		c.Exactly("Update/Hash-calls", len(hs), 1)
		if len(hs) == 1 {
			h := hs[0]
			var exit *ssa.BasicBlock
			for _, s := range header.Succs {
				if !body[s] {
					exit = s
				}
			}
			after := exit != nil && !body[h.Block()] && core.OnlyVia(header, exit, h.Block()) && onTrie(h)
			heededBefore(c, up, getTrie, core.ErrNonNil, "Hash", []ssa.Instruction{h})
			c.Check("Update:Hash-after-loop", "order", after, h.Pos(), "tr.Hash() is evaluated only after the loop over dirty has finished, on the trie that was updated")
			okRet := true
			nSucc := 0
			for _, r := range core.Returns(up) {
				if core.ClassifyReturn(r, nil, nil) == core.RetFailure {
					continue
				}
				nSucc++
				if !core.Derived(h.Value())[core.RetVal(r, 0)] {
					// the only other success: nothing to do (zero root and nothing dirty)
					if !zeroRootAndClean(r, up, dirty) {
						okRet = false
					}
				}
			}
			c.Check("Update:returns-Hash", "value-flow", okRet && nSucc >= 1, h.Pos(), "every successful return hands back tr.Hash() (or the zero root when the root is zero and nothing is dirty)")
		}
	})
	c.Run("storage-save", func() {
		sc := acct + ".StorageCache"
		save := c.Fn(sc + ".Save")
		dirty := c.FieldVar(sc, "dirty")
		condGuard(c, save, "len(dirty)>0", nil, func(sl map[ssa.Value]bool) bool {
			return core.SliceHasField(sl, dirty) && core.SliceHasIntConst(sl, 0)
		})
		trCommit := c.Method(tr+".SecureTrie", "Commit")
		dbCommit := c.Method("store.TrieDatabase", "Commit")
		tcs := core.CallsIn(save, trCommit)
		dcs := core.CallsIn(save, dbCommit)
		c.Exactly("Save/trie-Commit-calls", len(tcs), 1)
		c.Exactly("Save/TrieDatabase.Commit-calls", len(dcs), 1)
		if len(tcs) == 1 && len(dcs) == 1 {
			heededBefore(c, save, trCommit, core.ErrNonNil, "TrieDatabase.Commit", instrs(dcs))
			res := core.ResultValues(tcs[0])[0]
			ok := false
			for _, g := range core.CondGuards(save, nil) {
				if res != nil && g.Slice[res] && g.Slice[save.Params[1]] && core.SliceHasOp(g.Slice, token.NEQ) && g.GuardsAction(dcs[0]) {
					ok = true
				}
			}
			c.Check("Save?root≠committed-root", "quantity-guard", ok, dcs[0].Pos(), "the node database is committed only when the root computed by Commit equals the root the account records")
			a := dcs[0].Common().Args
			c.Check("Save:TrieDatabase.Commit(committed root)", "value-flow", res != nil && core.Derived(res)[a[1]], dcs[0].Pos(), "the root persisted is the one the trie's Commit returned")
			okH, whyH := rejectsOnFail(dcs[0], core.ErrNonNil)
			c.Check("Save→TrieDatabase.Commit", "heeded-guard", okH, dcs[0].Pos(), "a failing node-database commit makes Save fail: %s", orOK(whyH))
		}
	})
	c.Run("updateTrie", func() {
		fn := c.Fn(acct + ".Account.updateTrie")
		upd := c.Method(acct+".StorageCache", "Update")
		dataF := c.FieldVar(acct+".Account", "data")
		pairs := map[string]string{"storage": "StorageRoot", "assetCode": "AssetCodeRoot", "assetId": "AssetIdRoot", "equity": "EquityRoot"}
		calls := heeded(c, fn, upd, core.ErrNonNil, 4, nil)
		seen := map[string]bool{}
		for _, ci := range calls {
			args := ci.Common().Args
			rb, cf, isLd := core.FieldLoad(args[0])
			if !isLd || rb != fn.Params[0] || pairs[cf.Name()] == "" {
				c.Check("updateTrie:Update-on-own-cache", "value-flow", false, ci.Pos(), "Update must be called on one of the account's four storage caches")
				continue
			}
			want := c.FieldVar("chain/types.AccountData", pairs[cf.Name()])
			// argument: a.data.<Root>
			ab, af, isLd2 := core.FieldLoad(args[1])
			okArg := isLd2 && af == want
			if okArg {
				b2, f2, isLd3 := core.FieldLoad(ab)
				okArg = isLd3 && f2 == dataF && b2 == fn.Params[0]
			}
			// result stored into the same root
			okStore := false
			res := core.ResultValues(ci)[0]
			for _, b := range fn.Blocks {
				for _, in := range b.Instrs {
					s, isSt := in.(*ssa.Store)
					if !isSt || core.FieldOf(s.Addr) != want || res == nil || !core.Derived(res)[s.Val] {
						continue
					}
					if k, _ := core.HeededBefore(ci, core.ErrNonNil, s); k {
						okStore = true
					}
				}
			}
			seen[cf.Name()] = okArg && okStore
			c.Check("updateTrie:"+pairs[cf.Name()]+"="+cf.Name()+".Update("+pairs[cf.Name()]+")", "value-flow", okArg && okStore, ci.Pos(),
				"the %s cache is updated from, and its result assigned to, data.%s", cf.Name(), pairs[cf.Name()])
		}
		n := 0
		for k := range pairs {
			if seen[k] {
				n++
			}
		}
		c.Exactly("updateTrie/roots-assigned", n, 4)
		// every success exit lies after all four
		for _, r := range core.Returns(fn) {
			if core.ClassifyReturn(r, nil, nil) == core.RetFailure {
				continue
			}
			ok := true
			for _, ci := range calls {
				if !core.Dominates(ci, r) {
					ok = false
				}
			}
			c.Check("updateTrie:success-after-all-four", "order", ok && len(calls) >= 4, r.Pos(), "a successful return of updateTrie is preceded by all four Update calls")
		}
	})

	// -----------------------------------------------------------------------------------------
	c.Clause("C17.3", "nodes are stored under the hash of the bytes stored: in hasher.store the key given to TrieDatabase.Insert is Keccak (Reset; Write; Sum) of the very buffer passed as value, or the node's cached hash")
	c.Run("hasher-store", func() {
		fn := c.Fn(tr + ".hasher.store")
		tmp := c.FieldVar(tr+".hasher", "tmp")
		bufBytes := c.StdFunc("bytes", "Buffer.Bytes")
		bufReset := c.StdFunc("bytes", "Buffer.Reset")
		insert := c.Method("store.TrieDatabase", "Insert")
		encode := c.FuncObj("common/rlp.Encode")
		isBuf := func(v ssa.Value) bool { // h.tmp
			b, f, isLd := core.FieldLoad(v)
			return isLd && f == tmp && b == fn.Params[0]
		}
		isBufBytes := func(v ssa.Value) bool {
			ci, ok := v.(*ssa.Call)
			return ok && core.CalleeObj(ci) == bufBytes && isBuf(ci.Call.Args[0])
		}
		sum, why := shaSeq(c, fn, c.FieldVar(tr+".hasher", "sha"), isBufBytes)
		c.Check("store:Reset≺Write(tmp.Bytes())≺Sum", "order", sum != nil, fn.Pos(), "the fresh hash is Keccak of exactly the encoded buffer: %s", orOK(why))
		ins := core.CallsIn(fn, insert)
		c.Exactly("store/Insert-calls", len(ins), 1)
		cache := c.Method(tr+".node", "cache")
		if len(ins) == 1 && sum != nil {
			a := ins[0].Common().Args
			c.Check("store:Insert(value=tmp.Bytes())", "value-flow", isBufBytes(a[2]), ins[0].Pos(), "the value inserted is the encoded buffer")
			// the key: BytesToHash(hash) with hash ∈ {Sum result, n.cache() result}
			ok := false
			if conv, isCall := a[1].(*ssa.Call); isCall && core.CalleeObj(conv) == c.FuncObj("common.BytesToHash") {
				ok = true
				for _, src := range phiSources(conv.Call.Args[0]) {
					switch {
					case core.Derived(sum.Value())[src] || derivedBack(src)[sum.Value()]:
					default:
						okCache := false
						for d := range derivedBack(src) {
							if e, isE := d.(*ssa.Extract); isE && e.Index == 0 {
								if cc, isC := e.Tuple.(*ssa.Call); isC && core.CalleeObj(cc) == cache && cc.Call.Value == fn.Params[1] {
									okCache = true
								}
							}
						}
						if !okCache {
							ok = false
						}
					}
				}
			}
			c.Check("store:Insert(key=hash of tmp.Bytes())", "value-flow", ok, ins[0].Pos(), "the key is BytesToHash of the fresh Keccak of the buffer or of the cached hash of the same node n")
			// the fresh hash is only computed when there is no cached one, and the buffer is not touched between encoding and insertion
			okBuf := true
			encs := core.CallsIn(fn, encode)
			var resets []ssa.CallInstruction
			for _, ci := range core.AllCalls(fn) {
				cc := ci.Common()
				if cc.IsInvoke() || len(cc.Args) == 0 || !isBuf(cc.Args[0]) {
					continue
				}
				switch core.CalleeObj(ci) {
				case bufReset:
					resets = append(resets, ci)
				case bufBytes, c.StdFunc("bytes", "Buffer.Len"):
				default:
					okBuf = false // some other method of the buffer (Write, Truncate, ...) is called
				}
			}
			okEnc := len(encs) == 1 && len(resets) == 1 && core.Dominates(resets[0], encs[0]) && core.Dominates(encs[0], ins[0]) && core.Dominates(encs[0], sum)
			if okEnc {
				// Encode(h.tmp, n)
				ea := encs[0].Common().Args
				okEnc = false
				for d := range derivedBack(ea[0]) {
					if isBuf(d) {
						okEnc = true
					}
				}
				if !derivedBack(ea[1])[fn.Params[1]] {
					okEnc = false
				}
			}
			c.Check("store:tmp=Reset;rlp.Encode(tmp,n)≺hash,Insert", "order", okBuf && okEnc, fn.Pos(), "the buffer holds exactly the RLP of node n when it is hashed and inserted (reset, encoded once, not written otherwise)")
		}
	})

	// -----------------------------------------------------------------------------------------
	c.Clause("C17.4", "commit persists before it forgets: TrieDatabase.Commit passes commit(node, batch) and a heeded batch.Commit() before uncache(node); commit recurses (heeded) into every child before batch.Put(hash, node.Blob) of the node itself")
	c.Run("trie-db-commit", func() {
		db := "store.TrieDatabase"
		Commit := c.Fn(db + ".Commit")
		commitObj, uncache := c.Method(db, "commit"), c.Method(db, "uncache")
		batchCommit, batchPut := c.Method("store.Batch", "Commit"), c.Method("store.Batch", "Put")
		unc := core.CallsIn(Commit, uncache)
		c.Exactly("Commit/uncache-calls", len(unc), 1)
		heededBefore(c, Commit, commitObj, core.ErrNonNil, "uncache", instrs(unc))
		heededBefore(c, Commit, batchCommit, core.ErrNonNil, "uncache", instrs(unc))
		cs := core.CallsIn(Commit, commitObj)
		if len(cs) == 1 && len(unc) == 1 {
			ca, ua := cs[0].Common().Args, unc[0].Common().Args
			same := derivedBack(ca[1])[Commit.Params[1]] && derivedBack(ua[1])[Commit.Params[1]]
			// the batch flushed last is the batch commit filled
			okBatch := false
			for _, bc := range core.CallsIn(Commit, batchCommit) {
				if core.Dominates(cs[0], bc) && core.Dominates(bc, unc[0]) && bc.Common().Value == ca[2] {
					okBatch = true
				}
			}
			c.Check("Commit:commit(node,batch);batch.Commit();uncache(node)", "value-flow", same && okBatch, cs[0].Pos(), "the node uncached is the node committed, and the batch flushed between the two is the batch commit filled")
		}
		// no uncache / delete from the node cache anywhere else on the commit path
		cfn := c.Fn(db + ".commit")
		c.Check("commit:no-uncache", "no-call", len(core.CallsInDeep(cfn, uncache)) == 0, cfn.Pos(), "commit itself must not drop nodes from the cache")
		rec := core.CallsIn(cfn, commitObj)
		puts := core.CallsIn(cfn, batchPut)
		c.Exactly("commit/recursive-calls", len(rec), 1)
		c.Exactly("commit/Put-calls", len(puts), 1)
		if len(rec) == 1 && len(puts) == 1 {
			r, p := rec[0], puts[0]
			nodesF := c.FieldVar(db, "nodes")
			children := c.FieldVar("store.CachedNode", "Children")
			blob := c.FieldVar("store.CachedNode", "Blob")
			// the node: db.nodes[hash]
			var node ssa.Value
			for _, b := range cfn.Blocks {
				for _, in := range b.Instrs {
					if lk, ok := in.(*ssa.Lookup); ok {
						if _, f, isLd := core.FieldLoad(lk.X); isLd && f == nodesF && core.Slice(lk.Index)[cfn.Params[1]] {
							for _, rr := range *lk.Referrers() {
								if e, isE := rr.(*ssa.Extract); isE && e.Index == 0 {
									node = e
								}
							}
							if !lk.CommaOk {
								node = lk
							}
						}
					}
				}
			}
			nx, header := rangeOver(cfn, children)
			okRec := false
			if nx != nil && node != nil {
				rg := nx.Iter.(*ssa.Range)
				b, _, _ := core.FieldLoad(rg.X)
				var rk ssa.Value
				for _, rr := range *nx.Referrers() {
					if e, isE := rr.(*ssa.Extract); isE && e.Index == 1 {
						rk = e
					}
				}
				ra := r.Common().Args
				okRec = core.Derived(node)[b] && rk != nil && core.Slice(ra[1])[rk] && ra[2] == cfn.Params[2] && header != nil && core.EveryIterationOf(header, r)
			}
			c.Check("commit:recurse(every child, same batch)", "order", okRec, r.Pos(), "commit calls itself for every key of node.Children with the same batch on every iteration")
			ok, why := rejectsOnFail(r, core.ErrNonNil)
			c.Check("commit→commit(child)", "heeded-guard", ok, r.Pos(), "a failing child commit aborts: %s", orOK(why))
			okOrder := false
			if header != nil {
				body := core.NaturalLoop(header)
				var exit *ssa.BasicBlock
				for _, s := range header.Succs {
					if !body[s] {
						exit = s
					}
				}
				okOrder = exit != nil && !body[p.Block()] && core.OnlyVia(header, exit, p.Block())
			}
			c.Check("commit:children≺Put(self)", "order", okOrder, p.Pos(), "the node itself is put into the batch only after the loop over its children has finished")
			pa := p.Common().Args // invoke: args exclude receiver
			okPut := p.Common().Value == cfn.Params[2] && len(pa) == 3 && core.Slice(pa[1])[cfn.Params[1]] && node != nil
			if okPut {
				b, f, isLd := core.FieldLoad(pa[2])
				okPut = isLd && f == blob && core.Derived(node)[b]
			}
			c.Check("commit:Put(hash, nodes[hash].Blob)", "value-flow", okPut, p.Pos(), "the batch receives the blob cached under the hash, keyed by that hash")
			ok, why = rejectsOnFail(p, core.ErrNonNil)
			c.Check("commit→batch.Put", "heeded-guard", ok, p.Pos(), "a failing Put aborts: %s", orOK(why))
		}
	})

	// -----------------------------------------------------------------------------------------
	c.Clause("C17.5", "Merkle leaves are the elements' own hashes in list order: each of the three MerkleRootSha methods fills leaves[i] from Hash() of the i-th element in one full index-preserving loop and returns merkle.New(leaves).Root()")
	c.Run("merkle-leaves", func() {
		mnew := c.FuncObj("common/merkle.New")
		mroot := c.Method("common/merkle.MerkleTree", "Root")
		n := 0
		for _, e := range []struct{ list, elem string }{{"Transactions", "Transaction"}, {"DeputyNodes", "DeputyNode"}, {"ChangeLogSlice", "ChangeLog"}} {
			fn := c.Fn("chain/types." + e.list + ".MerkleRootSha")
			h := c.Method("chain/types."+e.elem, "Hash")
			news := core.CallsIn(fn, mnew)
			if len(news) != 1 {
				c.Check(e.list+".MerkleRootSha→merkle.New", "index-fill", false, fn.Pos(), "exactly one merkle.New expected")
				continue
			}
			leaves := news[0].Common().Args[0]
			fillFn, src := fn, ssa.Value(fn.Params[0])
			// the fill may live in a helper of the same repository that receives the list: follow the resolved callee (one level)
			for d := range derivedBack(leaves) {
				call, isCall := d.(*ssa.Call)
				if !isCall || call.Call.IsInvoke() || call.Call.StaticCallee() == nil || !core.InRepo(call.Call.StaticCallee()) || call.Call.StaticCallee().Blocks == nil {
					continue
				}
				g := call.Call.StaticCallee()
				rets := core.Returns(g)
				for i, arg := range call.Call.Args {
					if derivedBack(arg)[fn.Params[0]] && i < len(g.Params) && len(rets) == 1 && len(rets[0].Results) == 1 {
						fillFn, src, leaves = g, g.Params[i], core.RetVal(rets[0], 0)
					}
				}
			}
			isDst := func(v ssa.Value) bool { return v == leaves || derivedBack(leaves)[v] || derivedBack(v)[leaves] }
			isSrc := func(v ssa.Value) bool { return derivedBack(v)[src] }
			st := indexFill(c, e.list+".MerkleRootSha:leaves[i]=list[i].Hash()", fillFn, isDst, isSrc, []*types.Func{h}, e.list+".MerkleRootSha")
			// the leaves are a fresh list of the same length
			okLen := false
			for d := range derivedBack(leaves) {
				if mk, ok := d.(*ssa.MakeSlice); ok {
					if la, isLen := core.LenArg(mk.Len); isLen && isSrc(la) {
						okLen = true
					}
				}
			}
			c.Check(e.list+".MerkleRootSha:len(leaves)=len(list)", "value-flow", okLen, fn.Pos(), "one leaf per element")
			okRet := false
			for _, r := range core.Returns(fn) {
				if rc, ok := core.RetVal(r, 0).(*ssa.Call); ok && core.CalleeObj(rc) == mroot && core.Derived(news[0].Value())[rc.Call.Args[0]] {
					// the tree is built after the loop: merkle.New lies outside the fill loop and behind its exit
					if st != nil {
						_, lh := core.LoopOf(st.Block())
						okRet = lh != nil
						if okRet && fillFn == fn {
							body := core.NaturalLoop(lh)
							okRet = !body[news[0].Block()] && lh.Dominates(news[0].Block())
						}
					}
				}
			}
			c.Check(e.list+".MerkleRootSha:returns merkle.New(leaves).Root()", "value-flow", okRet, fn.Pos(), "the root returned is that of the tree built over the filled leaves after the loop")
			if st != nil && okLen && okRet {
				n++
			}
		}
		c.Exactly("merkle-leaves/methods", n, 3)
	})

	c.Clause("C17.7", "the root is the root of the current content: every successful exit of Trie.Hash and of Trie.Commit is preceded by hashRoot over the trie's own root node; a remembered root is accepted only as a memo that every write of Trie.root drops")
	c.Run("root-of-current-content", func() {
		hr := c.Method(tr+".Trie", "hashRoot")
		rootF := c.FieldVar(tr+".Trie", "root")
		// re-installing the node hashRoot handed back (the same content with its hashes cached) is not a content write
		// ... and neither is the read path's root with its hash nodes resolved from the database (tryGet returns the node it was given,
		// loaded; confirmed by reading)
		tg := c.Method(tr+".Trie", "tryGet")
		same := func(st *ssa.Store) bool {
			sl := core.SliceShallow(st.Val)
			return core.SliceHasCall(sl, hr) || core.SliceHasCall(sl, tg)
		}
		for _, name := range []string{"Hash", "Commit"} {
			fn := c.Fn(tr + ".Trie." + name)
			computedOrMemo(c, "Trie."+name+":hashRoot-or-valid-memo", fn, hr, []*types.Var{rootF}, same)
		}
		hrf := c.Fn(tr + ".Trie.hashRoot")
		ok := false
		for _, ci := range core.AllCalls(hrf) {
			if o := core.CalleeObj(ci); o != nil && o.Name() == "hash" {
				a := ci.Common().Args
				for _, x := range a {
					if core.SliceHasField(core.Slice(x), rootF) {
						ok = true
					}
				}
			}
		}
		c.Check("hashRoot:hashes-Trie.root", "value-flow", ok, hrf.Pos(), "hashRoot hashes the trie's own root node")
	})

	c.Clause("C17.8", "values are embedded in their node, never replaced by their hash: in hasher.hashChildren the recursive hash is applied to a short node's child only when it is not a valueNode, and to a branch node's children only at the 16 nibble positions (the 17th slot holds the value and is copied as it is)")
	c.Run("values-not-hashed", func() {
		hc := c.Fn(tr + ".hasher.hashChildren")
		hashM := c.Method(tr+".hasher", "hash")
		childrenF := c.FieldVar(tr+".fullNode", "Children")
		valF := c.FieldVar(tr+".shortNode", "Val")
		valueNode := c.Named(tr + ".valueNode")
		calls := core.CallsIn(hc, hashM)
		c.Floor("hashChildren/recursive-hash-calls", len(calls), 2)
		seq := 0
		for _, ci := range calls {
			a := ci.Common().Args
			if len(a) < 2 {
				continue
			}
			arg := a[1]
			seq++
			key := "hashChildren:hash#" + string(rune('a'+seq-1))
			// which slot does the node come from?
			var idx ssa.Value
			fromVal := false
			for v := range core.SliceShallow(arg) {
				switch x := v.(type) {
				case *ssa.IndexAddr:
					if core.FieldOf(x.X) == childrenF {
						idx = x.Index
					}
				case *ssa.Index:
					idx = x.Index
				case *ssa.FieldAddr:
					if core.FieldOf(x) == valF {
						fromVal = true
					}
				case *ssa.Next, *ssa.Range:
					idx = v // a range loop over the whole array: the index is not bounded below 17
				}
			}
			switch {
			case idx != nil:
				// bounded by a dominating `idx < K` with K ≤ 16 (the for condition), or a constant ≤ 15
				ok := false
				if k, isK := idx.(*ssa.Const); isK && k.Value != nil {
					if kv, exact := constant.Int64Val(k.Value); exact && kv >= 0 && kv <= 15 {
						ok = true
					}
				}
				for _, b := range hc.Blocks {
					ifi := ifOf(b)
					if ifi == nil || !b.Dominates(ci.Block()) || b == ci.Block() {
						continue
					}
					cmp, isCmp := ifi.Cond.(*ssa.BinOp)
					if !isCmp || cmp.X != idx {
						continue
					}
					k, isK := cmp.Y.(*ssa.Const)
					if !isK || k.Value == nil {
						continue
					}
					kv, _ := constant.Int64Val(k.Value)
					if ((cmp.Op == token.LSS && kv <= 16) || (cmp.Op == token.LEQ && kv <= 15)) && !core.CanReach(b.Succs[1], ci.Block(), b) {
						ok = true
					}
				}
				c.Check(key+":nibble-positions-only", "bounds", ok, ci.Pos(), "the recursive hash of a branch node's child is applied at index < 16 only; the value slot (index 16) must not be hashed (a value of 32 bytes or more would be replaced by its hash)")
			case fromVal:
				// on the edge where the child is NOT a valueNode
				ok := false
				for _, b := range hc.Blocks {
					ifi := ifOf(b)
					if ifi == nil || !b.Dominates(ci.Block()) || b == ci.Block() {
						continue
					}
					ex, isEx := ifi.Cond.(*ssa.Extract)
					if !isEx || ex.Index != 1 {
						continue
					}
					ta, isTa := ex.Tuple.(*ssa.TypeAssert)
					if !isTa || !ta.CommaOk || !types.Identical(ta.AssertedType, valueNode) {
						continue
					}
					if !core.CanReach(b.Succs[0], ci.Block(), b) {
						ok = true
					}
				}
				c.Check(key+":not-a-valueNode", "guarded-action", ok, ci.Pos(), "the recursive hash of a short node's child runs only on the branch where the child is not a valueNode")
			default:
				c.Check(key+":source-known", "value-flow", false, ci.Pos(), "the node handed to the recursive hash is neither a branch node's child nor a short node's Val")
			}
		}
	})

	c.Clause("C17.9", "trie nodes do not grow each other's keys: in package store/trie no append starts from the Key slice of a short node (keys created by insert as key[:matchlen] share their backing array with the sibling leaf; an append with spare capacity overwrites the sibling's key) — merged keys are built in a fresh slice")
	c.Run("no-append-to-shared-keys", func() {
		var fresh func(v ssa.Value, d int) bool
		fresh = func(v ssa.Value, d int) bool {
			if d > 8 {
				return false
			}
			switch x := v.(type) {
			case *ssa.MakeSlice:
				return true
			case *ssa.Const:
				return x.IsNil()
			case *ssa.Slice:
				if al, ok := x.X.(*ssa.Alloc); ok {
					_ = al
					return true // a slice of a fresh local array
				}
				return fresh(x.X, d+1)
			case *ssa.Call:
				if bi, ok := x.Call.Value.(*ssa.Builtin); ok && bi.Name() == "append" {
					return fresh(x.Call.Args[0], d+1)
				}
				// a function of the package that returns a fresh slice (copying helpers)
				if sf := core.StaticFn(x); sf != nil && sf.Blocks != nil && core.InRepo(sf) {
					for _, r := range core.Returns(sf) {
						if len(r.Results) == 0 || !fresh(r.Results[0], d+2) {
							return false
						}
					}
					return true
				}
				return false
			case *ssa.Phi:
				for _, e := range x.Edges {
					if !fresh(e, d+1) {
						return false
					}
				}
				return len(x.Edges) > 0
			case *ssa.UnOp:
				if al, ok := x.X.(*ssa.Alloc); ok && x.Op == token.MUL && al.Referrers() != nil {
					n := 0
					for _, r := range *al.Referrers() {
						if st, ok := r.(*ssa.Store); ok && st.Addr == ssa.Value(al) {
							n++
							if !fresh(st.Val, d+1) {
								return false
							}
						}
					}
					return n > 0
				}
			}
			return false
		}
		n := 0
		seq := map[string]int{}
		for _, fn := range c.SrcFuncs {
			if core.RelPkg(fn) != tr || isTestHelper(c, fn) {
				continue
			}
			for _, ci := range core.AllCalls(fn) {
				call, ok := ci.(*ssa.Call)
				if !ok {
					continue
				}
				bi, isB := call.Call.Value.(*ssa.Builtin)
				if !isB || bi.Name() != "append" {
					continue
				}
				n++
				if fresh(call.Call.Args[0], 0) {
					continue
				}
				// only appends that start from a slice stored in a trie node (its key): path prefixes and the sync / iterator
				// work lists are scratch memory of their owner
				fromNode := false
				base := call.Call.Args[0]
				for {
					if sl, ok := base.(*ssa.Slice); ok {
						base = sl.X
						continue
					}
					break
				}
				if ld, ok := base.(*ssa.UnOp); ok && ld.Op == token.MUL {
					if f := core.FieldOf(ld.X); f != nil && f.Name() == "Key" {
						if on := ownerNamed(c, f); on != nil && on.Obj().Name() == "shortNode" {
							fromNode = true
						}
					}
				}
				if !fromNode {
					continue
				}
				name := shortFn(fn)
				why, listed := c17SharedAppend[name]
				seq[name]++
				c.Check("append-to-shared@"+name+seqSuffix(seq[name]), "alias-write", listed, call.Pos(), "%s appends to a slice it did not make; listed=%v: %s", name, listed, why)
			}
		}
		c.Floor("appends-in-package-trie", n, 5)
	})

	c.Clause("C17.6", "a Merkle proof is judged against the root the caller supplies: every return of merkle.Verify that can be true compares the hash computed from the target and the path with the root parameter")
	c.Run("merkle-verify", func() {
		v := c.Fn("common/merkle.Verify")
		n := 0
		for _, r := range core.Returns(v) {
			val := core.RetVal(r, 0)
			if bv, isC := core.BoolConst(val); isC && !bv {
				continue
			}
			n++
			sl := core.Slice(val)
			c.Check("Verify:result-compares(root, hash(target, path))"+suffix(n-1, 9), "value-flow", sl[v.Params[0]] && sl[v.Params[1]] && sl[v.Params[2]], r.Pos(), "a possibly-true result of Verify is computed from the target, the supplied root and the path")
		}
		c.Floor("Verify/non-false-returns", n, 1)
	})

	c.Clause("C17.10", "a Merkle root is computed without touching the caller's list, and a proof is walked by prefix: every value stored into MerkleTree.nodes is made in place or extends nodes itself; the proof walker compares a short node's key with the front of the remaining search key")
	c.Run("merkle-nodes-fresh", func() { c17MerkleNodesFresh(c) })
	c.Run("proof-walker-prefix", func() { c17ProofWalkerPrefix(c) })

	c.Clause("C17.11", "a root names one content whatever other trie values were derived from the same nodes: in package store/trie every store into an element of fullNode.Children goes to a node made in that function (fullNode.copy() or a new node)")
	c.Run("branch-writes-on-copies", func() { c17BranchWritesOnCopies(c) })

	c.NotDecidedf("the root as a function of the key/value SET (independence from insertion order, from commits and from cache eviction): a mutant inside Trie.insert / Trie.delete, hasher.hash or hasher.hashChildren is NOT detected")
	c.NotDecidedf("proof soundness (merkle.FindSiblingNodes / merkle.Verify) and the Merkle tree shape incl. the odd-tail rule: a mutant inside merkle.calculateNodes is NOT detected")
	c.NotDecidedf("that the element hashes cover all fields (C02.2, C04.1, C14.2 decide that), collision resistance of Keccak, RLP canonicity of node encodings")
	c.NotDecidedf("StorageCache.DelState only forgets the cached entry (it never reaches TryDelete); it has no reachable caller with a nil asset today (D30)")
}

// zeroRootAndClean: return r is only reachable when the root parameter is the zero hash and dirty is empty.
func zeroRootAndClean(r *ssa.Return, fn *ssa.Function, dirty *types.Var) bool {
	okRoot, okDirty := false, false
	for _, e := range core.DominatingEdges(r.Block()) {
		cmp, isB := e.If.Cond.(*ssa.BinOp)
		if !isB {
			continue
		}
		if cmp.Op == token.EQL && e.Taken && (cmp.X == fn.Params[1] || cmp.Y == fn.Params[1]) {
			okRoot = true
		}
		if la, isLen := core.LenArg(cmp.X); isLen && cmp.Op == token.EQL && e.Taken {
			if _, f, isLd := core.FieldLoad(la); isLd && f == dirty {
				if z, isC := core.IntConstVal(cmp.Y); isC && z == 0 {
					okDirty = true
				}
			}
		}
	}
	return okRoot && okDirty
}
