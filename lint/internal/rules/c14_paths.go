package rules

import (
	"go/token"
	"go/types"
	"sort"

	"golang.org/x/tools/go/ssa"

	"verif/lint/internal/core"
)

// ---------------------------------------------------------------------------------------------
// C14.5 encoders do not iterate maps in map order

var sortFuncs = [][2]string{{"sort", "Strings"}, {"sort", "Ints"}, {"sort", "Float64s"}, {"sort", "Sort"}, {"sort", "Stable"}, {"sort", "Slice"}, {"sort", "SliceStable"}}

// mapRangeSorted decides whether a range over a map is order-insensitive in the only way this repository uses: key/value are
// only appended to an accumulator slice, and every use of the accumulator after the loop is dominated by a sort of it.
func mapRangeSorted(c *core.Ctx, rg *ssa.Range) (bool, string) {
	var nexts []*ssa.Next
	for _, r := range *rg.Referrers() {
		if n, ok := r.(*ssa.Next); ok {
			nexts = append(nexts, n)
		}
	}
	if len(nexts) != 1 {
		return false, "the iterator is advanced in more than one place"
	}
	loop, _ := core.LoopOf(nexts[0].Block())
	if loop == nil {
		return false, "the loop of the range was not found"
	}
	taint := map[ssa.Value]bool{}
	acc := map[ssa.Value]bool{}
	var work []ssa.Value
	for _, r := range *nexts[0].Referrers() {
		if ex, ok := r.(*ssa.Extract); ok && ex.Index > 0 {
			taint[ex] = true
			work = append(work, ex)
		}
	}
	for len(work) > 0 {
		v := work[len(work)-1]
		work = work[:len(work)-1]
		if v.Referrers() == nil {
			continue
		}
		for _, r := range *v.Referrers() {
			switch x := r.(type) {
			case *ssa.DebugRef:
			case *ssa.Store:
				ia, ok := x.Addr.(*ssa.IndexAddr)
				al, isAl := ssa.Value(nil), false
				if ok {
					al, isAl = ia.X.(*ssa.Alloc)
				}
				if x.Val != v || !ok || !isAl {
					if x.Val == v {
						return false, "a key/value of the map is stored somewhere other than an append argument"
					}
					continue
				}
				if !taint[al] {
					taint[al] = true
					work = append(work, al)
				}
			case *ssa.IndexAddr:
				// the address of the varargs cell itself
			case *ssa.Slice:
				if !taint[x] {
					taint[x] = true
					work = append(work, x)
				}
			case *ssa.Call:
				b, ok := x.Call.Value.(*ssa.Builtin)
				if !ok || b.Name() != "append" || len(x.Call.Args) != 2 || x.Call.Args[1] != v {
					return false, "a key/value of the map is passed to a call inside the loop"
				}
				acc[x] = true
			default:
				return false, "a key/value of the map is used in the loop other than by appending it to a slice"
			}
		}
	}
	if len(acc) == 0 {
		return true, "" // keys and values are not used at all
	}
	// close the accumulator over phis
	changed := true
	for changed {
		changed = false
		for a := range acc {
			for _, r := range *a.Referrers() {
				if p, ok := r.(*ssa.Phi); ok && !acc[p] {
					acc[p] = true
					changed = true
				}
			}
		}
	}
	fn := rg.Parent()
	var sorts []ssa.CallInstruction
	for _, sf := range sortFuncs {
		for _, ci := range core.CallsIn(fn, c.StdFunc(sf[0], sf[1])) {
			if a := ci.Common().Args; len(a) > 0 {
				for x := range core.Slice(a[0]) {
					if acc[x] {
						sorts = append(sorts, ci)
						break
					}
				}
			}
		}
	}
	if len(sorts) == 0 {
		return false, "the slice collecting the keys is never sorted"
	}
	for a := range acc {
		for _, r := range *a.Referrers() {
			if _, isDbg := r.(*ssa.DebugRef); isDbg || loop[r.Block()] {
				continue
			}
			if v, isV := r.(ssa.Value); isV && acc[v] {
				continue
			}
			ok := false
			for _, s := range sorts {
				if s == r || core.Dominates(s, r) {
					ok = true
				}
			}
			if !ok {
				return false, "the collected keys are used before they are sorted"
			}
		}
	}
	return true, ""
}

// typeContains: does t (through struct fields, pointers, slices, arrays, map elements) contain target?
func typeContains(t, target types.Type, seen map[types.Type]bool) bool {
	if types.Identical(t, target) {
		return true
	}
	if seen[t] {
		return false
	}
	seen[t] = true
	switch u := t.Underlying().(type) {
	case *types.Pointer:
		return typeContains(u.Elem(), target, seen)
	case *types.Slice:
		return typeContains(u.Elem(), target, seen)
	case *types.Array:
		return typeContains(u.Elem(), target, seen)
	case *types.Map:
		return typeContains(u.Elem(), target, seen) || typeContains(u.Key(), target, seen)
	case *types.Struct:
		for i := 0; i < u.NumFields(); i++ {
			if typeContains(u.Field(i).Type(), target, seen) {
				return true
			}
		}
	}
	return false
}

func c14Maps(c *core.Ctx) {
	c.Clause("C14.5", "no EncodeRLP method (nor a same-package helper it calls) iterates a map in map order: keys are collected and sorted before use. AccountData.EncodeRLP is the one exemption — its record list is emitted in map order — and is only ever encoded for storage by address, never for a hash")
	c.Run("maps", func() {
		encI := c.Named(c14Rlp + ".Encoder").Underlying().(*types.Interface)
		exempt := map[string]string{
			"(*chain/types.AccountData).EncodeRLP": "NewestRecords is emitted in map order; the bytes are stored under the account address and never hashed or compared (the state commitment is the version trie, C17)",
		}
		var rels []string
		for rel := range c.ByPath {
			rels = append(rels, rel)
		}
		sort.Strings(rels)
		nEnc, nRange := 0, 0
		for _, rel := range rels {
			sc := c.ByPath[rel].Types.Scope()
			for _, name := range sc.Names() {
				tn, ok := sc.Lookup(name).(*types.TypeName)
				if !ok || tn.IsAlias() {
					continue
				}
				n, ok := tn.Type().(*types.Named)
				if !ok || n.TypeParams().Len() > 0 || !implementsIface(n, encI) {
					continue
				}
				if _, isI := n.Underlying().(*types.Interface); isI {
					continue
				}
				obj, _, _ := types.LookupFieldOrMethod(types.NewPointer(n), true, n.Obj().Pkg(), "EncodeRLP")
				m, _ := obj.(*types.Func)
				fn := c.FuncOf(m)
				if fn == nil || fn.Blocks == nil {
					continue
				}
				nEnc++
				for _, f := range samePkgClosure(fn) {
					k := 0
					for _, b := range f.Blocks {
						for _, in := range b.Instrs {
							rg, ok := in.(*ssa.Range)
							if !ok {
								continue
							}
							if _, isMap := rg.X.Type().Underlying().(*types.Map); !isMap {
								continue
							}
							nRange++
							k++
							key := "map-range:" + core.FuncName(f)
							if k > 1 {
								key += "#" + string(rune('a'+k-1))
							}
							sorted, why := mapRangeSorted(c, rg)
							if reason, ex := exempt[core.FuncName(fn)]; ex && !sorted {
								c.CheckTrivial(key, "map-order-exempt", true, rg.Pos(), "exempt (%s): %s", why, reason)
								c.Note("C14.5: %s ranges a map unsorted (%s) — outside every hash sink: %s", core.FuncName(fn), why, reason)
								continue
							}
							c.Check(key, "map-order", sorted, rg.Pos(), "an encoder must not emit map entries in map order: %s", orOK(why))
						}
					}
				}
			}
		}
		c.Floor("encoders-scanned", nEnc, 8)
		c.Floor("map-ranges-in-encoders", nRange, 2)

		// the exemption's premise: AccountData is only encoded by the store, under its address
		ad := c.Named(c14Types + ".AccountData")
		encoders := []*types.Func{c.FuncObj(c14Rlp + ".Encode"), c.FuncObj(c14Rlp + ".EncodeToBytes"), c.FuncObj(c14Rlp + ".EncodeToReader")}
		allowed := map[string]bool{"(*store.ChainDatabase).blockCommit": true}
		expandAllowed(c, allowed)
		n := 0
		for _, s := range c.CallSites(encoders...) {
			if isTestHelper(c, s.Caller) {
				continue
			}
			a := s.Instr.Common().Args
			v := ifaceOperand(a[len(a)-1])
			if v == nil || !typeContains(v.Type(), ad, map[types.Type]bool{}) {
				continue
			}
			n++
			who := core.FuncName(core.Outer(s.Caller))
			c.Check("AccountData-encoded-by@"+who, "who-may-call", ownedBy(c, s.Caller, allowed, 0), s.Instr.Pos(), "%s encodes a value containing AccountData; only the store's block commit may (its bytes are in map order and must never reach a hash)", who)
		}
		c.Floor("AccountData-encode-sites", n, 1)
	})
}

// ---------------------------------------------------------------------------------------------
// C14.6 the decode path cannot panic on a wrong shape

func c14DecodePath(c *core.Ctx) {
	c.Clause("C14.6", "the change-log decode path (ChangeLog.DecodeRLP, every registered decoder and redo function, and the same-package helpers they call) contains no type assertion without comma-ok, no explicit panic and no slice/string indexing; a failed assertion in a redo function returns an error; the unchecked assertions on log payloads elsewhere live in a frozen set of functions fed with locally created logs only")
	c.Run("decode-path", func() {
		roots := map[*ssa.Function]string{c.Fn(c14Types + ".ChangeLog.DecodeRLP"): "decoder"}
		var redos []*ssa.Function
		for _, s := range c.CallSites(c.FuncObj(c14Types + ".RegisterChangeLog")) {
			if isTestHelper(c, s.Caller) {
				continue
			}
			a := s.Instr.Common().Args
			for i, role := range map[int]string{2: "decoder", 3: "decoder", 4: "redo"} {
				if f := funcValue(a[i]); f != nil {
					if _, dup := roots[f]; !dup && role == "redo" {
						redos = append(redos, f)
					}
					roots[f] = role
				}
			}
		}
		// the custom DecodeRLP methods of the other consensus types are held to the same no-panic / no-unchecked-assert rule
		for _, t := range []string{"Header", "AccountData", "Profile", "Event", "EventForStorage", "Transaction"} {
			roots[c.Fn(c14Types+"."+t+".DecodeRLP")] = "method"
		}
		seen := map[*ssa.Function]bool{}
		var fns []*ssa.Function
		role := map[*ssa.Function]string{}
		for r, ro := range roots {
			for _, f := range samePkgClosure(r) {
				if !seen[f] {
					seen[f] = true
					fns = append(fns, f)
					role[f] = ro
				}
			}
		}
		sort.Slice(fns, func(i, j int) bool { return core.FuncName(fns[i]) < core.FuncName(fns[j]) })
		for _, f := range fns {
			var bad []string
			pos := f.Pos()
			for _, b := range f.Blocks {
				for _, in := range b.Instrs {
					switch x := in.(type) {
					case *ssa.TypeAssert:
						if !x.CommaOk {
							bad = append(bad, "type assertion without comma-ok to "+typeStr(x.AssertedType))
							pos = x.Pos()
						}
					case *ssa.Panic:
						bad = append(bad, "explicit panic")
						pos = x.Pos()
					case *ssa.IndexAddr:
						if role[f] == "method" {
							continue // bounded loops over decoded slices; bounds are value properties
						}
						if _, isSlice := x.X.Type().Underlying().(*types.Slice); isSlice {
							bad = append(bad, "slice indexing")
							pos = x.Pos()
						}
					case *ssa.Index:
						if _, isC := x.Index.(*ssa.Const); !isC && role[f] != "method" {
							bad = append(bad, "indexing with a computed index")
							pos = x.Pos()
						}
					case *ssa.Lookup:
						if _, isMap := x.X.Type().Underlying().(*types.Map); !isMap && role[f] != "method" {
							bad = append(bad, "string indexing")
							pos = x.Pos()
						}
					case *ssa.Slice:
						_, isPtr := x.X.Type().Underlying().(*types.Pointer)
						if !isPtr && (x.Low != nil || x.High != nil || x.Max != nil) && role[f] != "method" {
							bad = append(bad, "re-slicing with bounds")
							pos = x.Pos()
						}
					}
				}
			}
			c.Check("no-panic:"+core.FuncName(f), "decode-path", len(bad) == 0, pos, "%s is on the decode path and must not be able to panic on a wrong shape: %v", shortFn(f), bad)
		}
		c.Floor("decode-path-functions", len(fns), 39)

		// redo: a failed comma-ok assertion returns a failure
		sort.Slice(redos, func(i, j int) bool { return core.FuncName(redos[i]) < core.FuncName(redos[j]) })
		nAssert := 0
		for _, f := range redos {
			k := 0
			for _, b := range f.Blocks {
				for _, in := range b.Instrs {
					ta, ok := in.(*ssa.TypeAssert)
					if !ok || !ta.CommaOk {
						continue
					}
					nAssert++
					k++
					good := false
					for _, r := range *ta.Referrers() {
						ex, isEx := r.(*ssa.Extract)
						if !isEx || ex.Index != 1 {
							continue
						}
						for _, t := range core.TestsOf(ex, core.IsFalse) {
							all := true
							for _, ret := range core.Returns(f) {
								if (ret.Block() == t.Fail || core.CanReach(t.Fail, ret.Block())) && core.ClassifyReturn(ret, nil, nil) != core.RetFailure {
									all = false
								}
							}
							if all && t.Fail != t.OK {
								good = true
							}
						}
					}
					c.Check("redo-assert-heeded:"+shortFn(f)+"#"+string(rune('a'+k-1)), "heeded-guard", good, ta.Pos(), "in %s a payload of the wrong dynamic type (assertion to %s failed) must end in a returned error", shortFn(f), typeStr(ta.AssertedType))
				}
			}
		}
		c.Floor("redo-assertions", nAssert, 24)

		// unchecked assertions on log payloads anywhere in the repository
		cl := c.Struct(c14Types + ".ChangeLog")
		payload := map[*types.Var]bool{structField(cl, "NewVal"): true, structField(cl, "Extra"): true, structField(cl, "OldVal"): true}
		frozen := map[string]string{
			"chain/account.IsValuable":                "called by removeUnchanged ← MergeChangeLogs on LogProcessor.changeLogs, which holds logs created by this node's own NewXLog constructors",
			"(*chain/account.Manager).updateVersion":  "called by Finalise on getChangeLogsByAddress(), i.e. the processor's own journal; an AddEventLog's NewVal is the *types.Event its constructor stored (C14.3)",
			"chain/transaction.getVotesChangesByLogs": "called by votesChangeByBalanceLog on Manager.GetChangeLogs() of the block being executed locally",
		}
		// (a listed function that was written out inside its only caller is represented by that caller)
		{
			al := map[string]bool{}
			for k := range frozen {
				al[k] = true
			}
			expandAllowed(c, al)
			for k := range al {
				if _, have := frozen[k]; !have {
					frozen[k] = "holds the inlined body of a listed function"
				}
			}
		}
		nUn := 0
		for _, f := range c.SrcFuncs {
			if isTestHelper(c, f) {
				continue
			}
			for _, b := range f.Blocks {
				for _, in := range b.Instrs {
					ta, ok := in.(*ssa.TypeAssert)
					if !ok || ta.CommaOk {
						continue
					}
					from := false
					for v := range core.Slice(ta.X) {
						if fv := core.FieldOf(v); fv != nil && payload[fv] {
							from = true
						}
					}
					if !from {
						continue
					}
					nUn++
					who := core.FuncName(core.Outer(f))
					_, ok = frozen[who]
					c.Check("unchecked-payload-assert@"+who, "who-may-call", ok, ta.Pos(), "%s asserts a change-log payload without comma-ok; only functions fed with locally created logs may: %s", who, frozen[who])
				}
			}
		}
		c.Floor("unchecked-payload-assertions", nUn, 15)
		closedCallers(c, "IsValuable", []string{"chain/account.removeUnchanged"}, c.FuncObj(c14Acct+".IsValuable"))
		closedCallers(c, "removeUnchanged", []string{"chain/account.MergeChangeLogs"}, c.FuncObj(c14Acct+".removeUnchanged"))
		closedCallers(c, "MergeChangeLogs", []string{"(*chain/account.LogProcessor).MergeChangeLogs"}, c.FuncObj(c14Acct+".MergeChangeLogs"))
		closedCallers(c, "getVotesChangesByLogs", []string{"chain/transaction.votesChangeByBalanceLog"}, c.FuncObj("chain/transaction.getVotesChangesByLogs"))
		closedCallers(c, "updateVersion", []string{"(*chain/account.Manager).Finalise"}, c.Method(c14Acct+".Manager", "updateVersion"))
		// premise of the frozen set: the journal (LogProcessor.changeLogs) only ever receives logs built by the constructors
		journal := c.FieldVar(c14Acct+".LogProcessor", "changeLogs")
		writers := map[string]string{
			"chain/account.NewLogProcessor":                  "creates the empty journal",
			"(*chain/account.LogProcessor).PushChangeLog":    "appends its argument (checked at every call site below)",
			"(*chain/account.LogProcessor).Clear":            "empties the journal",
			"(*chain/account.LogProcessor).RevertToSnapshot": "truncates the journal",
			"(*chain/account.LogProcessor).MergeChangeLogs":  "replaces the journal by a merged subset of itself",
			"(*chain/account.Manager).RebuildAll":            "would append decoded logs of a block — dead code: must have no caller (checked below)",
		}
		nW := 0
		for _, f := range c.SrcFuncs {
			if isTestHelper(c, f) {
				continue
			}
			for _, b := range f.Blocks {
				for _, in := range b.Instrs {
					if st, ok := in.(*ssa.Store); ok && core.FieldOf(st.Addr) == journal {
						nW++
						who := core.FuncName(core.Outer(f))
						_, ok := writers[who]
						c.Check("journal-writer@"+who, "who-may-call", ok, st.Pos(), "%s writes LogProcessor.changeLogs; the journal may only be fed with locally constructed logs (%s)", who, writers[who])
					}
				}
			}
		}
		c.Floor("journal-writes", nW, 6)
		closedCallers(c, "RebuildAll", []string{}, c.Method(c14Acct+".Manager", "RebuildAll"))
		ctors := changeLogCtors(c)
		nPush := 0
		for _, s := range c.CallSites(c.Method(c14Acct+".LogProcessor", "PushChangeLog")) {
			if isTestHelper(c, s.Caller) {
				continue
			}
			nPush++
			a := s.Instr.Common().Args
			fromCtor := false
			for v := range core.Slice(a[len(a)-1]) {
				if ci, ok := v.(ssa.CallInstruction); ok {
					if sf := core.StaticFn(ci); sf != nil && ctors[sf] {
						fromCtor = true
					}
				}
			}
			c.Check("journal-push@"+core.FuncName(s.Caller), "value-flow", fromCtor, s.Instr.Pos(), "the log pushed onto the journal in %s is the result of a NewXLog constructor", core.FuncName(s.Caller))
		}
		c.Floor("journal-pushes", nPush, 19)
		// the slice handed to the merge is the processor's own journal
		mf := c.Fn(c14Acct + ".LogProcessor.MergeChangeLogs")
		okArg := false
		for _, ci := range core.CallsIn(mf, c.FuncObj(c14Acct+".MergeChangeLogs")) {
			okArg = core.SliceHasField(core.Slice(ci.Common().Args[0]), c.FieldVar(c14Acct+".LogProcessor", "changeLogs"))
		}
		c.Check("LogProcessor.MergeChangeLogs:own-journal", "value-flow", okArg, mf.Pos(), "the logs merged (and tested by IsValuable) are the processor's own journal")
	})
}

var _ = token.NoPos
