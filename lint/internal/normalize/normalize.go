// Package normalize undoes extract-function refactorings before the analysis: a private (unexported) function or method that the reference
// tree does not know (reference/functions.txt) is inlined, as statements, into the functions that call it, and removed. The rules are anchored
// in the functions of the reference tree; how a maintainer later cuts one of them into private helpers must not change any verdict, and
// a defect hidden in such a helper is analysed in the place where it takes effect. The transformation is source to source on an overlay
// (no file is written, nothing is executed); when it cannot be done for a call site the helper stays and the tree is analysed as it is.
package normalize

import (
	"bytes"
	"fmt"
	"go/ast"
	"go/parser"
	"go/printer"
	"go/token"
	"go/types"
	"os"
	"path/filepath"
	"sort"
	"strings"

	"golang.org/x/tools/go/ast/astutil"
	"golang.org/x/tools/go/packages"
)

// Result of a normalisation.
type Result struct {
	Overlay map[string][]byte // absolute file name -> new content
	Inlined []string          // helpers inlined and removed
	Kept    []string          // new private helpers that had to stay (with the reason)
}

// KeyOf is the table key of a function declaration: "<relative package dir>\t<Recv.>Name".
func KeyOf(relDir string, d *ast.FuncDecl) string {
	name := d.Name.Name
	if d.Recv != nil && len(d.Recv.List) == 1 {
		t := d.Recv.List[0].Type
		if s, ok := t.(*ast.StarExpr); ok {
			t = s.X
		}
		if ix, ok := t.(*ast.IndexExpr); ok {
			t = ix.X
		}
		if id, ok := t.(*ast.Ident); ok {
			name = id.Name + "." + name
		}
	}
	return relDir + "\t" + name
}

// Scan parses every non-test Go file below dir and returns the declared functions (key -> file).
func Scan(dir string) (map[string]string, error) {
	out := map[string]string{}
	fset := token.NewFileSet()
	err := filepath.Walk(dir, func(path string, info os.FileInfo, err error) error {
		if err != nil {
			return err
		}
		if info.IsDir() {
			n := info.Name()
			if path != dir && (strings.HasPrefix(n, ".") || n == "testdata" || n == "vendor") {
				return filepath.SkipDir
			}
			return nil
		}
		if !strings.HasSuffix(path, ".go") || strings.HasSuffix(path, "_test.go") {
			return nil
		}
		f, perr := parser.ParseFile(fset, path, nil, parser.SkipObjectResolution)
		if perr != nil {
			return nil // the type checker will complain
		}
		rel, _ := filepath.Rel(dir, filepath.Dir(path))
		if rel == "." {
			rel = ""
		}
		for _, d := range f.Decls {
			if fd, ok := d.(*ast.FuncDecl); ok {
				k := KeyOf(filepath.ToSlash(rel), fd)
				out[k] = path
				if fd.Body != nil {
					ast.Inspect(fd.Body, func(n ast.Node) bool {
						if as, ok := n.(*ast.AssignStmt); ok && as.Tok == token.DEFINE && len(as.Lhs) == 1 && len(as.Rhs) == 1 {
							if id, ok := as.Lhs[0].(*ast.Ident); ok {
								if _, isLit := as.Rhs[0].(*ast.FuncLit); isLit && id.Name != "_" {
									out[k+"$"+id.Name] = path
								}
							}
						}
						return true
					})
				}
			}
		}
		return nil
	})
	return out, err
}

// NewPrivate lists the keys of scanned functions that are unexported and missing from the reference table.
func NewPrivate(scanned map[string]string, known map[string]bool) []string {
	var out []string
	for k := range scanned {
		if known[k] {
			continue
		}
		name := k[strings.Index(k, "\t")+1:]
		if strings.Contains(name, "$") {
			out = append(out, k) // a local closure
			continue
		}
		if i := strings.LastIndex(name, "."); i >= 0 {
			name = name[i+1:]
		}
		if name == "" || name == "init" || name == "main" || name == "_" || ast.IsExported(name) {
			continue
		}
		out = append(out, k)
	}
	sort.Strings(out)
	return out
}

// Run inlines the new private helpers of the tree at dir. known is the reference table.
func Run(dir string, env []string, known map[string]bool) (*Result, error) {
	res := &Result{Overlay: map[string][]byte{}}
	keptWhy := map[string]string{}
	counter := 0
	for round := 0; round < 4; round++ {
		scanned, err := scanWithOverlay(dir, res.Overlay)
		if err != nil {
			return nil, err
		}
		fresh := NewPrivate(scanned, known)
		if len(fresh) == 0 {
			break
		}
		pkgDirs := map[string]bool{}
		for _, k := range fresh {
			pkgDirs[k[:strings.Index(k, "\t")]] = true
		}
		var patterns []string
		for d := range pkgDirs {
			patterns = append(patterns, "./"+d)
		}
		sort.Strings(patterns)
		cfg := &packages.Config{
			Mode:    packages.NeedName | packages.NeedFiles | packages.NeedCompiledGoFiles | packages.NeedSyntax | packages.NeedTypes | packages.NeedTypesInfo | packages.NeedImports | packages.NeedDeps,
			Dir:     dir,
			Env:     append(append(os.Environ(), "GOFLAGS=-mod=mod", "GOPROXY=off", "GOSUMDB=off", "GOTOOLCHAIN=local", "GOWORK=off"), env...),
			Overlay: res.Overlay,
		}
		var keep []string
		for _, e := range cfg.Env {
			if strings.HasPrefix(e, "TAGS=") {
				cfg.BuildFlags = append(cfg.BuildFlags, "-tags="+strings.TrimPrefix(e, "TAGS="))
				continue
			}
			keep = append(keep, e)
		}
		cfg.Env = keep
		pkgs, err := packages.Load(cfg, patterns...)
		if err != nil {
			return nil, err
		}
		progress := false
		for _, pk := range pkgs {
			if len(pk.Errors) > 0 {
				return nil, fmt.Errorf("normalize: %s does not type-check: %v", pk.PkgPath, pk.Errors[0])
			}
			rel, _ := filepath.Rel(dir, filepath.Dir(firstFile(pk)))
			rel = filepath.ToSlash(rel)
			if rel == "." {
				rel = ""
			}
			in := &inliner{pk: pk, relDir: rel, known: known, overlay: res.Overlay, counter: &counter, keptWhy: keptWhy}
			done := in.run()
			if len(done) > 0 {
				progress = true
				res.Inlined = append(res.Inlined, done...)
			}
		}
		if !progress {
			break
		}
	}
	scanned, err := scanWithOverlay(dir, res.Overlay)
	if err != nil {
		return nil, err
	}
	for _, k := range NewPrivate(scanned, known) {
		why := keptWhy[k]
		if why == "" {
			why = "not inlined"
		}
		res.Kept = append(res.Kept, strings.Replace(k, "\t", ".", 1)+" ("+why+")")
	}
	sort.Strings(res.Inlined)
	return res, nil
}

func firstFile(pk *packages.Package) string {
	if len(pk.CompiledGoFiles) > 0 {
		return pk.CompiledGoFiles[0]
	}
	if len(pk.GoFiles) > 0 {
		return pk.GoFiles[0]
	}
	return ""
}

func scanWithOverlay(dir string, overlay map[string][]byte) (map[string]string, error) {
	out := map[string]string{}
	fset := token.NewFileSet()
	err := filepath.Walk(dir, func(path string, info os.FileInfo, err error) error {
		if err != nil {
			return err
		}
		if info.IsDir() {
			n := info.Name()
			if path != dir && (strings.HasPrefix(n, ".") || n == "testdata" || n == "vendor") {
				return filepath.SkipDir
			}
			return nil
		}
		if !strings.HasSuffix(path, ".go") || strings.HasSuffix(path, "_test.go") {
			return nil
		}
		var src interface{}
		if b, ok := overlay[path]; ok {
			src = b
		}
		f, perr := parser.ParseFile(fset, path, src, parser.SkipObjectResolution)
		if perr != nil {
			return nil
		}
		rel, _ := filepath.Rel(dir, filepath.Dir(path))
		if rel == "." {
			rel = ""
		}
		for _, d := range f.Decls {
			if fd, ok := d.(*ast.FuncDecl); ok {
				k := KeyOf(filepath.ToSlash(rel), fd)
				out[k] = path
				if fd.Body != nil {
					ast.Inspect(fd.Body, func(n ast.Node) bool {
						if as, ok := n.(*ast.AssignStmt); ok && as.Tok == token.DEFINE && len(as.Lhs) == 1 && len(as.Rhs) == 1 {
							if id, ok := as.Lhs[0].(*ast.Ident); ok {
								if _, isLit := as.Rhs[0].(*ast.FuncLit); isLit && id.Name != "_" {
									out[k+"$"+id.Name] = path
								}
							}
						}
						return true
					})
				}
			}
		}
		return nil
	})
	return out, err
}

// ---------------------------------------------------------------------------------------------------------------------------------

type inliner struct {
	pendingImports map[*ast.File]map[string]string
	pk             *packages.Package
	relDir         string
	known          map[string]bool
	overlay        map[string][]byte
	counter        *int
	keptWhy        map[string]string
}

type edit struct {
	start, end int // byte offsets in the file
	text       string
}

type callee struct {
	sig      *types.Signature
	delStmt  ast.Stmt // for a local closure: the statement that declares it
	hasDefer bool
	isExpr   bool // the body is a single `return <expr>`
	key      string
	decl     *ast.FuncDecl
	obj      *types.Func
	file     *ast.File
}

func (in *inliner) src(file *ast.File) []byte {
	name := in.pk.Fset.File(file.Pos()).Name()
	if b, ok := in.overlay[name]; ok {
		return b
	}
	b, _ := os.ReadFile(name)
	return b
}

func (in *inliner) off(p token.Pos) int { return in.pk.Fset.Position(p).Offset }

// lineDir is a //line directive that makes the text after it count as line `line` of the file p lies in (positions as the reader of the
// original sources knows them; directives of earlier rounds are honoured by Position).
func (in *inliner) lineDir(p token.Pos, deltaLines int) string {
	ps := in.pk.Fset.Position(p)
	if !ps.IsValid() || ps.Filename == "" {
		return ""
	}
	return fmt.Sprintf("//line %s:%d\n", ps.Filename, ps.Line+deltaLines)
}

// run inlines, in this package, every new private helper that calls no other new helper, at all its call sites; returns the helpers removed.
func (in *inliner) run() []string {
	info := in.pk.TypesInfo
	cands := map[types.Object]*callee{}
	for _, f := range in.pk.Syntax {
		for _, d := range f.Decls {
			fd, ok := d.(*ast.FuncDecl)
			if !ok || fd.Body == nil {
				continue
			}
			k := KeyOf(in.relDir, fd)
			if in.known[k] || ast.IsExported(fd.Name.Name) || fd.Name.Name == "init" || fd.Name.Name == "main" || fd.Name.Name == "_" {
				continue
			}
			obj, _ := info.Defs[fd.Name].(*types.Func)
			if obj == nil {
				continue
			}
			cd := &callee{key: k, decl: fd, obj: obj, file: f, sig: obj.Type().(*types.Signature)}
			if len(fd.Body.List) == 1 {
				if rs, ok := fd.Body.List[0].(*ast.ReturnStmt); ok && len(rs.Results) == 1 && cd.sig.Results().Len() == 1 {
					cd.isExpr = true
				}
			}
			cands[obj] = cd
		}
	}
	// new local closures: `name := func(...) ... { ... }` whose key (function$name) the reference does not know
	for _, f := range in.pk.Syntax {
		for _, d := range f.Decls {
			fd, ok := d.(*ast.FuncDecl)
			if !ok || fd.Body == nil {
				continue
			}
			fkey := KeyOf(in.relDir, fd)
			ast.Inspect(fd.Body, func(n ast.Node) bool {
				as, ok := n.(*ast.AssignStmt)
				if !ok || as.Tok != token.DEFINE || len(as.Lhs) != 1 || len(as.Rhs) != 1 {
					return true
				}
				id, ok1 := as.Lhs[0].(*ast.Ident)
				lit, ok2 := as.Rhs[0].(*ast.FuncLit)
				if !ok1 || !ok2 || id.Name == "_" {
					return true
				}
				k := fkey + "$" + id.Name
				if in.known[k] {
					return true
				}
				v, _ := info.Defs[id].(*types.Var)
				sig, _ := info.TypeOf(lit).(*types.Signature)
				if v == nil || sig == nil {
					return true
				}
				cd := &callee{key: k, decl: &ast.FuncDecl{Name: ast.NewIdent(id.Name), Type: lit.Type, Body: lit.Body}, file: f, sig: sig, delStmt: as}
				cands[v] = cd
				return true
			})
		}
	}
	if len(cands) == 0 {
		return nil
	}
	// leaf-first: a candidate that calls another candidate waits for the next round
	ready := map[types.Object]*callee{}
	for obj, c := range cands {
		if why := in.ineligible(c); why != "" {
			in.keptWhy[c.key] = why
			continue
		}
		callsCand := false
		ast.Inspect(c.decl.Body, func(n ast.Node) bool {
			if ce, ok := n.(*ast.CallExpr); ok {
				if o := calleeAny(info, ce); o != nil && cands[o] != nil && cands[o] != c {
					callsCand = true
				}
			}
			return true
		})
		if callsCand {
			in.keptWhy[c.key] = "calls another new helper (waits for the next round)"
			continue
		}
		ready[obj] = c
	}
	if len(ready) == 0 {
		return nil
	}
	// collect the call sites and every other reference
	edits := map[*ast.File][]edit{}
	failed := map[types.Object]string{}
	sites := map[types.Object]int{}
	refs := map[types.Object]int{}
	for _, o := range info.Uses {
		if ready[o] != nil {
			refs[o]++
		}
	}
	for _, f := range in.pk.Syntax {
		src := in.src(f)
		var fileEdits []edit
		overlaps := func(s, e int) bool {
			for _, x := range fileEdits {
				if s < x.end && x.start < e {
					return true
				}
			}
			return false
		}
		for _, d := range f.Decls {
			fd, ok := d.(*ast.FuncDecl)
			if !ok || fd.Body == nil {
				continue
			}
			if o, _ := info.Defs[fd.Name].(*types.Func); o != nil && ready[o] != nil {
				continue // its own body disappears with it
			}
			// helpers that are one expression are substituted wherever they are called
			ast.Inspect(fd.Body, func(n ast.Node) bool {
				call, ok := n.(*ast.CallExpr)
				if !ok {
					return true
				}
				o := calleeAny(info, call)
				c := ready[o]
				if c == nil || !c.isExpr {
					return true
				}
				s, e := in.off(call.Pos()), in.off(call.End())
				if overlaps(s, e) {
					failed[o] = "nested call sites (next round)"
					return true
				}
				text, why := in.expandExpr(f, src, call, c)
				if why != "" {
					failed[o] = why
					return true
				}
				fileEdits = append(fileEdits, edit{s, e, text})
				sites[o]++
				return false
			})
			in.walkStmts(fd.Body, func(list []ast.Stmt, i int) {
				st := list[i]
				call, form := siteOf(st)
				if call == nil {
					return
				}
				o := calleeAny(info, call)
				c := ready[o]
				if c == nil || c.isExpr {
					return
				}
				if c.delStmt != nil && st.Pos() >= c.delStmt.Pos() && st.End() <= c.delStmt.End() {
					failed[o] = "recursive"
					return
				}
				if c.hasDefer && form != "return" {
					// a helper with defers can only be expanded where its exit is the caller's exit: the next statement is a return of
					// call-free values (or the function ends)
					tail := i == len(list)-1 && false
					if i+1 < len(list) {
						if rs, ok := list[i+1].(*ast.ReturnStmt); ok {
							tail = true
							for _, r := range rs.Results {
								ast.Inspect(r, func(n ast.Node) bool {
									if _, isCall := n.(*ast.CallExpr); isCall {
										tail = false
									}
									return true
								})
							}
						}
					}
					if !tail {
						failed[o] = "has a defer and is not called in tail position"
						return
					}
				}
				s, e := in.off(st.Pos()), in.off(st.End())
				if overlaps(s, e) {
					failed[o] = "nested call sites (next round)"
					return
				}
				var next ast.Stmt
				if i+1 < len(list) {
					next = list[i+1]
				}
				text, why := in.expand(f, src, st, call, form, c, fd, next)
				if why != "" {
					failed[o] = why
					return
				}
				fileEdits = append(fileEdits, edit{s, e, text})
				sites[o]++
			})
		}
		if len(fileEdits) > 0 {
			edits[f] = fileEdits
		}
	}
	// a helper is removed when every reference to it was an inlined call site
	var done []string
	for o, c := range ready {
		if failed[o] != "" || sites[o] == 0 || sites[o] != refs[o] {
			why := failed[o]
			if why == "" && sites[o] != refs[o] {
				why = fmt.Sprintf("%d of %d references are not calls in statement position", refs[o]-sites[o], refs[o])
			}
			if why == "" {
				why = "no call site"
			}
			in.keptWhy[c.key] = why
			// drop the edits of this callee? they are still valid (the helper stays, the inlined copies are equivalent)
			continue
		}
		s, e := in.off(c.decl.Pos()), in.off(c.decl.End())
		if c.decl.Doc != nil {
			s = in.off(c.decl.Doc.Pos())
		}
		if c.delStmt != nil {
			s, e = in.off(c.delStmt.Pos()), in.off(c.delStmt.End())
		}
		edits[c.file] = append(edits[c.file], edit{s, e, "\n" + in.lineDir(c.decl.End(), 0)})
		done = append(done, strings.Replace(c.key, "\t", ".", 1))
		delete(in.keptWhy, c.key)
	}
	for f, es := range edits {
		src := in.src(f)
		sort.Slice(es, func(i, j int) bool { return es[i].start > es[j].start })
		out := append([]byte(nil), src...)
		for _, e := range es {
			out = append(out[:e.start], append([]byte(e.text), out[e.end:]...)...)
		}
		names := map[string]string{}
		for path, ip := range in.pk.Imports {
			names[path] = ip.Name
		}
		out = fixImports(in.pk.Fset.File(f.Pos()).Name(), out, in.pendingImports[f], names)
		in.overlay[in.pk.Fset.File(f.Pos()).Name()] = out
	}
	return done
}

// calleeAny is calleeObj that also resolves a call of a local variable holding a function literal (to the variable).
func calleeAny(info *types.Info, ce *ast.CallExpr) types.Object {
	if f := calleeObj(info, ce); f != nil {
		return f
	}
	if id, ok := ast.Unparen(ce.Fun).(*ast.Ident); ok {
		if v, ok := info.Uses[id].(*types.Var); ok && !v.IsField() {
			return v
		}
	}
	return nil
}

func calleeObj(info *types.Info, ce *ast.CallExpr) *types.Func {
	switch f := ast.Unparen(ce.Fun).(type) {
	case *ast.Ident:
		o, _ := info.Uses[f].(*types.Func)
		return o
	case *ast.SelectorExpr:
		if sel := info.Selections[f]; sel != nil && sel.Kind() == types.MethodVal {
			o, _ := sel.Obj().(*types.Func)
			return o
		}
	}
	return nil
}

// ineligible says why a helper cannot be inlined as statements ("" = it can).
func (in *inliner) ineligible(c *callee) string {
	sig := c.sig
	if sig.Variadic() {
		return "variadic"
	}
	if sig.TypeParams() != nil || sig.RecvTypeParams() != nil {
		return "generic"
	}
	why := ""
	ast.Inspect(c.decl.Body, func(n ast.Node) bool {
		switch x := n.(type) {
		case *ast.FuncLit:
			return false
		case *ast.DeferStmt:
			c.hasDefer = true
		case *ast.CallExpr:
			if id, ok := ast.Unparen(x.Fun).(*ast.Ident); ok && id.Name == "recover" {
				why = "calls recover"
			}
			if o := calleeObj(in.pk.TypesInfo, x); o != nil && c.obj != nil && o == c.obj {
				why = "recursive"
			}
		}
		return true
	})
	return why
}

// walkStmts calls fn for every statement of every statement list below body (not inside function literals).
func (in *inliner) walkStmts(body *ast.BlockStmt, fn func(list []ast.Stmt, i int)) {
	ast.Inspect(body, func(n ast.Node) bool {
		var list []ast.Stmt
		switch x := n.(type) {
		case *ast.BlockStmt:
			list = x.List
		case *ast.CaseClause:
			list = x.Body
		case *ast.CommClause:
			list = x.Body
		}
		for i := range list {
			fn(list, i)
		}
		return true
	})
}

// siteOf recognises the statement forms a call can be expanded in.
func siteOf(st ast.Stmt) (*ast.CallExpr, string) {
	asCall := func(e ast.Expr) *ast.CallExpr {
		ce, _ := ast.Unparen(e).(*ast.CallExpr)
		return ce
	}
	switch s := st.(type) {
	case *ast.ExprStmt:
		if ce := asCall(s.X); ce != nil {
			return ce, "expr"
		}
	case *ast.AssignStmt:
		if len(s.Rhs) == 1 && (s.Tok == token.DEFINE || s.Tok == token.ASSIGN) {
			if ce := asCall(s.Rhs[0]); ce != nil {
				return ce, "assign"
			}
		}
	case *ast.ReturnStmt:
		if len(s.Results) == 1 {
			if ce := asCall(s.Results[0]); ce != nil {
				return ce, "return"
			}
		}
	case *ast.IfStmt:
		if as, ok := s.Init.(*ast.AssignStmt); ok && len(as.Rhs) == 1 && (as.Tok == token.DEFINE || as.Tok == token.ASSIGN) {
			if ce := asCall(as.Rhs[0]); ce != nil {
				return ce, "if-init"
			}
		}
		if s.Init == nil {
			// `if h(...) {` / `if !h(...) {`: the condition is the call alone
			cond := ast.Unparen(s.Cond)
			if u, ok := cond.(*ast.UnaryExpr); ok && u.Op == token.NOT {
				cond = ast.Unparen(u.X)
			}
			if ce, ok := cond.(*ast.CallExpr); ok {
				return ce, "if-cond"
			}
		}
	}
	return nil, ""
}

// expand produces the text that replaces statement st (which calls c at `call`) inside caller.
func (in *inliner) expand(file *ast.File, src []byte, st ast.Stmt, call *ast.CallExpr, form string, c *callee, caller *ast.FuncDecl, next ast.Stmt) (string, string) {
	info := in.pk.TypesInfo
	fset := in.pk.Fset
	sig := c.sig
	if call.Ellipsis.IsValid() {
		return "", "call with ..."
	}
	if len(call.Args) != sig.Params().Len() {
		return "", "argument count differs from parameter count (f(g()) form)"
	}
	for _, imp := range file.Imports {
		if imp.Name != nil && imp.Name.Name == "." {
			return "", "dot import in the caller's file"
		}
	}
	*in.counter++
	n := *in.counter
	suffix := fmt.Sprintf("_inl%d", n)
	text := func(node ast.Node) string { return string(src[in.off(node.Pos()):in.off(node.End())]) }

	scope := in.pk.Types.Scope().Innermost(call.Pos())
	qual, addImports, qwhy := in.qualifier(file, scope, call.Pos())
	typeStr := func(t types.Type) string { return types.TypeString(t, qual) }

	var b strings.Builder
	fmt.Fprintf(&b, "// inlined %s\n", c.decl.Name.Name)
	// arguments (receiver first), evaluated once, in order
	type parm struct {
		name string
		typ  types.Type
		arg  string
		isK  bool
	}
	var parms []parm
	if sig.Recv() != nil {
		se, ok := ast.Unparen(call.Fun).(*ast.SelectorExpr)
		if !ok {
			return "", "method called through a value"
		}
		sel := info.Selections[se]
		if sel == nil || len(sel.Index()) != 1 {
			return "", "method promoted through an embedded field"
		}
		x := text(se.X)
		xt := info.TypeOf(se.X)
		_, wantPtr := sig.Recv().Type().(*types.Pointer)
		_, havePtr := xt.Underlying().(*types.Pointer)
		switch {
		case wantPtr && !havePtr:
			x = "&(" + x + ")"
		case !wantPtr && havePtr:
			x = "*(" + x + ")"
		}
		name := "_"
		if len(c.decl.Recv.List) == 1 && len(c.decl.Recv.List[0].Names) == 1 {
			name = c.decl.Recv.List[0].Names[0].Name
		}
		parms = append(parms, parm{name, sig.Recv().Type(), x, false})
	}
	pi := 0
	for _, fld := range c.decl.Type.Params.List {
		names := fld.Names
		if len(names) == 0 {
			names = []*ast.Ident{{Name: "_"}}
		}
		for _, nm := range names {
			a := call.Args[pi]
			tv := info.Types[a]
			parms = append(parms, parm{nm.Name, sig.Params().At(pi).Type(), text(a), tv.Value != nil || tv.IsNil()})
			pi++
		}
	}
	var lhs, rhs []string
	for i, p := range parms {
		if p.isK {
			continue
		}
		lhs = append(lhs, fmt.Sprintf("__a%d%s", i, suffix))
		rhs = append(rhs, p.arg)
	}
	if len(lhs) > 0 {
		fmt.Fprintf(&b, "%s := %s\n", strings.Join(lhs, ", "), strings.Join(rhs, ", "))
	}
	// results
	var resNames []string
	named := false
	if c.decl.Type.Results != nil {
		ri := 0
		for _, fld := range c.decl.Type.Results.List {
			if len(fld.Names) == 0 {
				resNames = append(resNames, fmt.Sprintf("__r%d%s", ri, suffix))
				ri++
				continue
			}
			for _, nm := range fld.Names {
				named = true
				if nm.Name == "_" {
					resNames = append(resNames, fmt.Sprintf("__r%d%s", ri, suffix))
				} else {
					resNames = append(resNames, nm.Name+suffix)
				}
				ri++
			}
		}
	}
	direct := form == "return" && !named // `return h(...)`: the helper's returns are the caller's returns
	if !direct {
		for i, rn := range resNames {
			fmt.Fprintf(&b, "var %s %s\n", rn, typeStr(sig.Results().At(i).Type()))
		}
	}
	// the caller's error handler, when the site has the form `x, err := h(...); if err != nil { ...; return ... }`: it is repeated at the
	// helper's failing returns, so that a failure leaves the caller right there instead of joining the successful path first
	var hd *handler
	if !direct && !named {
		hd = in.handlerOf(src, st, form, next, sig)
		if hd != nil {
			for i := 0; i < sig.Results().Len(); i++ {
				hd.types = append(hd.types, typeStr(sig.Results().At(i).Type()))
			}
		}
	}
	// body
	body, nret, bwhy := in.bodyH(c, file, scope, call.Pos(), suffix, resNames, named, addImports, form == "return" && !named, hd)
	if bwhy != "" {
		return "", bwhy
	}
	if qwhy != "" {
		return "", qwhy
	}
	label := "__L" + suffix
	if nret > 0 {
		fmt.Fprintf(&b, "%s:\nswitch {\ndefault:\n", label)
	} else {
		b.WriteString("{\n")
	}
	for i, p := range parms {
		if p.name == "_" {
			if !p.isK {
				fmt.Fprintf(&b, "_ = __a%d%s\n", i, suffix)
			}
			continue
		}
		v := fmt.Sprintf("__a%d%s", i, suffix)
		if p.isK {
			v = p.arg
		}
		fmt.Fprintf(&b, "var %s%s %s = %s\n_ = %s%s\n", p.name, suffix, typeStr(p.typ), v, p.name, suffix)
	}
	b.WriteString(in.lineDir(c.decl.Body.Lbrace, 1))
	b.WriteString(body)
	b.WriteString("\n}\n")
	// tail
	res := strings.Join(resNames, ", ")
	switch form {
	case "expr":
		for _, rn := range resNames {
			fmt.Fprintf(&b, "_ = %s\n", rn)
		}
	case "assign":
		as := st.(*ast.AssignStmt)
		var l []string
		for _, x := range as.Lhs {
			l = append(l, text(x))
		}
		fmt.Fprintf(&b, "%s %s %s\n", strings.Join(l, ", "), as.Tok.String(), res)
	case "return":
		if !direct {
			fmt.Fprintf(&b, "return %s\n", res)
		} else if len(resNames) == 0 {
			b.WriteString("return\n")
		}
	case "if-cond":
		ifs := st.(*ast.IfStmt)
		if len(resNames) != 1 {
			return "", "a condition needs exactly one result"
		}
		neg := ""
		if u, ok := ast.Unparen(ifs.Cond).(*ast.UnaryExpr); ok && u.Op == token.NOT {
			neg = "!"
		}
		rest := string(src[in.off(ifs.Body.Lbrace):in.off(ifs.End())])
		return "{\n" + b.String() + in.lineDir(ifs.Cond.Pos(), 0) + "if " + neg + resNames[0] + " " + rest + "\n}\n" + in.lineDir(st.End(), 0), ""
	case "if-init":
		ifs := st.(*ast.IfStmt)
		as := ifs.Init.(*ast.AssignStmt)
		var l []string
		for _, x := range as.Lhs {
			l = append(l, text(x))
		}
		fmt.Fprintf(&b, "%s %s %s\n", strings.Join(l, ", "), as.Tok.String(), res)
		rest := string(src[in.off(ifs.Cond.Pos()):in.off(ifs.End())])
		return "{\n" + b.String() + in.lineDir(ifs.Cond.Pos(), 0) + "if " + rest + "\n}\n" + in.lineDir(st.End(), 0), ""
	}
	_ = fset
	if form == "return" || form == "expr" || form == "assign" {
		// keep the temporaries out of the caller's scope where the statement form allows it
		if form != "assign" || st.(*ast.AssignStmt).Tok == token.ASSIGN {
			return "{\n" + b.String() + "}\n" + in.lineDir(st.End(), 0), ""
		}
	}
	return b.String() + in.lineDir(st.End(), 0), ""
}

// qualifier returns a types.Qualifier for type strings written into `file` at pos; packages that the file does not import are recorded
// in addImports.
func (in *inliner) qualifier(file *ast.File, scope *types.Scope, pos token.Pos) (types.Qualifier, map[string]string, string) {
	add := map[string]string{}
	why := ""
	byPath := map[string]string{}
	for _, imp := range file.Imports {
		path := strings.Trim(imp.Path.Value, "\"")
		name := ""
		if imp.Name != nil {
			name = imp.Name.Name
		} else if ip := in.pk.Imports[path]; ip != nil {
			name = ip.Name
		} else {
			name = path[strings.LastIndex(path, "/")+1:]
		}
		if name != "_" {
			byPath[path] = name
		}
	}
	q := func(p *types.Package) string {
		if p == in.pk.Types {
			return ""
		}
		if n, ok := byPath[p.Path()]; ok {
			// the import name must not be shadowed at pos
			if _, o := scope.LookupParent(n, pos); o != nil {
				if _, isPkg := o.(*types.PkgName); !isPkg {
					why = "an import name is shadowed at the call site"
				}
			}
			return n
		}
		alias := "inl_" + strings.NewReplacer(".", "_", "-", "_").Replace(p.Name())
		add[p.Path()] = alias
		return alias
	}
	if in.pendingImports == nil {
		in.pendingImports = map[*ast.File]map[string]string{}
	}
	if in.pendingImports[file] == nil {
		in.pendingImports[file] = map[string]string{}
	}
	pend := in.pendingImports[file]
	return func(p *types.Package) string {
		n := q(p)
		if a, ok := add[p.Path()]; ok {
			pend[p.Path()] = a
		}
		return n
	}, add, why
}

// body prints the callee's body for insertion at the call site: local identifiers get the suffix, returns become assignments to the
// result variables followed by a break out of the labelled switch, imported packages are referred to by the caller file's names.
func (in *inliner) bodyH(c *callee, file *ast.File, scope *types.Scope, pos token.Pos, suffix string, resNames []string, named bool, addImports map[string]string, keepReturns bool, hd *handler) (string, int, string) {
	info := in.pk.TypesInfo
	csrc := in.src(c.file)
	start := in.off(c.decl.Body.Lbrace)
	end := in.off(c.decl.Body.Rbrace) + 1
	wrapped := "package p\nfunc _() " + string(csrc[start:end])
	fs := token.NewFileSet()
	nf, err := parser.ParseFile(fs, "", wrapped, parser.ParseComments|parser.SkipObjectResolution)
	if err != nil {
		return "", 0, "cannot re-parse the helper's body"
	}
	nbody := nf.Decls[0].(*ast.FuncDecl).Body
	nbase := fs.Position(nbody.Lbrace).Offset
	// identifiers of the copy by offset
	copyIdent := map[int]*ast.Ident{}
	ast.Inspect(nbody, func(n ast.Node) bool {
		if id, ok := n.(*ast.Ident); ok {
			copyIdent[fs.Position(id.Pos()).Offset-nbase] = id
		}
		return true
	})
	qual, _, _ := in.qualifier(file, scope, pos)
	why := ""
	declStart, declEnd := c.decl.Pos(), c.decl.End()
	ast.Inspect(c.decl.Body, func(n ast.Node) bool {
		id, ok := n.(*ast.Ident)
		if !ok {
			return true
		}
		ni := copyIdent[in.off(id.Pos())-start]
		if ni == nil {
			return true
		}
		obj := info.Uses[id]
		if obj == nil {
			obj = info.Defs[id]
		}
		if obj == nil {
			return true // field name in a composite literal key, label, ...
		}
		switch o := obj.(type) {
		case *types.PkgName:
			ni.Name = qual(o.Imported())
			return true
		}
		if obj.Pos() >= declStart && obj.Pos() < declEnd {
			if v, isVar := obj.(*types.Var); isVar && v.IsField() {
				return true
			}
			if id.Name != "_" {
				ni.Name = id.Name + suffix
			}
			return true
		}
		// a free identifier: package level or universe; it must mean the same thing at the call site
		if obj.Parent() == in.pk.Types.Scope() || obj.Parent() == types.Universe {
			if _, o := scope.LookupParent(id.Name, pos); o != obj {
				why = "the identifier " + id.Name + " is shadowed at the call site"
			}
		} else if c.delStmt != nil {
			// a variable of the enclosing function captured by the closure
			if v, isVar := obj.(*types.Var); isVar && !v.IsField() {
				if _, o := scope.LookupParent(id.Name, pos); o != obj {
					why = "the captured variable " + id.Name + " is shadowed at the call site"
				}
			}
		}
		return true
	})
	if why != "" {
		return "", 0, why
	}
	// labels
	labels := map[string]bool{}
	ast.Inspect(nbody, func(n ast.Node) bool {
		if ls, ok := n.(*ast.LabeledStmt); ok {
			labels[ls.Label.Name] = true
		}
		return true
	})
	ast.Inspect(nbody, func(n ast.Node) bool {
		switch x := n.(type) {
		case *ast.LabeledStmt:
			x.Label.Name += suffix
		case *ast.BranchStmt:
			if x.Label != nil && labels[x.Label.Name] {
				x.Label.Name += suffix
			}
		}
		return true
	})
	// returns whose error is certainly not nil: `return ..., E` directly inside `if E != nil { ... }` with no assignment to E before it in that
	// block, or an error made on the spot (package-level Err… variable, errors.New, fmt.Errorf)
	knownNonNil := map[*ast.ReturnStmt]bool{}
	if hd != nil {
		var scan func(list []ast.Stmt, nonNil map[string]bool)
		scan = func(list []ast.Stmt, nonNil map[string]bool) {
			cur := map[string]bool{}
			for k := range nonNil {
				cur[k] = true
			}
			for _, st := range list {
				switch x := st.(type) {
				case *ast.AssignStmt:
					for _, l := range x.Lhs {
						if id, ok := l.(*ast.Ident); ok {
							delete(cur, id.Name)
						}
					}
				case *ast.IfStmt:
					inner := map[string]bool{}
					for k := range cur {
						inner[k] = true
					}
					if x.Init != nil {
						if as, ok := x.Init.(*ast.AssignStmt); ok {
							for _, l := range as.Lhs {
								if id, ok := l.(*ast.Ident); ok {
									delete(inner, id.Name)
								}
							}
						}
					}
					var conj func(e ast.Expr)
					conj = func(e ast.Expr) {
						be, ok := ast.Unparen(e).(*ast.BinaryExpr)
						if !ok {
							return
						}
						if be.Op == token.LAND {
							conj(be.X)
							conj(be.Y)
							return
						}
						if be.Op == token.NEQ && isNilIdent(be.Y) {
							if id, ok := be.X.(*ast.Ident); ok {
								inner[id.Name] = true
							}
						}
					}
					conj(x.Cond)
					scan(x.Body.List, inner)
					switch eb := x.Else.(type) {
					case *ast.BlockStmt:
						scan(eb.List, cur)
					case *ast.IfStmt:
						scan([]ast.Stmt{eb}, cur)
					}
				case *ast.BlockStmt:
					scan(x.List, cur)
				case *ast.ForStmt:
					scan(x.Body.List, map[string]bool{})
				case *ast.RangeStmt:
					scan(x.Body.List, map[string]bool{})
				case *ast.ReturnStmt:
					if len(x.Results) == 0 {
						continue
					}
					switch e := ast.Unparen(x.Results[len(x.Results)-1]).(type) {
					case *ast.Ident:
						if cur[e.Name] || (strings.HasPrefix(e.Name, "Err") && len(e.Name) > 3) {
							knownNonNil[x] = true
						}
					case *ast.SelectorExpr:
						if strings.HasPrefix(e.Sel.Name, "Err") && len(e.Sel.Name) > 3 {
							knownNonNil[x] = true
						}
					case *ast.CallExpr:
						if se, ok := e.Fun.(*ast.SelectorExpr); ok {
							if p, ok := se.X.(*ast.Ident); ok && ((p.Name == "errors" && se.Sel.Name == "New") || (p.Name == "fmt" && se.Sel.Name == "Errorf")) {
								knownNonNil[x] = true
							}
						}
					}
				}
			}
		}
		scan(nbody.List, map[string]bool{})
	}
	// returns
	nret := 0
	label := "__L" + suffix
	var depth int
	astutil.Apply(nbody, func(cur *astutil.Cursor) bool {
		switch x := cur.Node().(type) {
		case *ast.FuncLit:
			depth++
			_ = x
		case *ast.ReturnStmt:
			if depth > 0 || keepReturns {
				return true
			}
			var stmts []ast.Stmt
			if hd != nil && len(x.Results) == len(resNames) && len(x.Results) > 0 && !isNilIdent(x.Results[len(x.Results)-1]) {
				// x, err := e0, e1 ; [if err != nil] { handler } ; results = x, err ; break
				hs, herr := hd.stmts(fs)
				if herr == nil {
					var lhs []ast.Expr
					allBlank := true
					for _, n := range hd.lhs {
						lhs = append(lhs, ast.NewIdent(n))
						if n != "_" {
							allBlank = false
						}
					}
					_ = allBlank
					// typed declarations first (a result may be the untyped nil), then one assignment
					for i, n := range hd.lhs {
						if n == "_" {
							continue
						}
						te, perr := parser.ParseExpr(hd.types[i])
						if perr != nil {
							herr = perr
							break
						}
						stmts = append(stmts, &ast.DeclStmt{Decl: &ast.GenDecl{Tok: token.VAR, Specs: []ast.Spec{&ast.ValueSpec{Names: []*ast.Ident{ast.NewIdent(n)}, Type: te}}}})
					}
					stmts = append(stmts, &ast.AssignStmt{Lhs: lhs, Tok: token.ASSIGN, Rhs: x.Results})
					for _, n := range hd.lhs {
						if n != "_" {
							stmts = append(stmts, &ast.AssignStmt{Lhs: []ast.Expr{ast.NewIdent("_")}, Tok: token.ASSIGN, Rhs: []ast.Expr{ast.NewIdent(n)}})
						}
					}
					errName := hd.lhs[len(hd.lhs)-1]
					if herr == nil && knownNonNil[x] {
						stmts = append(stmts, hs...)
						cur.Replace(&ast.BlockStmt{List: stmts})
						return true
					}
					if herr == nil {
						// a blank on the caller's side loses a value the results need: only when every result is named there
						var rl, rr []ast.Expr
						for i, rn := range resNames {
							rl = append(rl, ast.NewIdent(rn))
							if hd.lhs[i] == "_" {
								rr = nil
								break
							}
							rr = append(rr, ast.NewIdent(hd.lhs[i]))
						}
						if rr != nil {
							stmts = append(stmts, &ast.IfStmt{Cond: &ast.BinaryExpr{X: ast.NewIdent(errName), Op: token.NEQ, Y: ast.NewIdent("nil")}, Body: &ast.BlockStmt{List: hs}})
							nret++
							stmts = append(stmts, &ast.AssignStmt{Lhs: rl, Tok: token.ASSIGN, Rhs: rr})
							stmts = append(stmts, &ast.BranchStmt{Tok: token.BREAK, Label: ast.NewIdent(label)})
							cur.Replace(&ast.BlockStmt{List: stmts})
							return true
						}
					}
					stmts = nil
				}
			}
			nret++
			if len(x.Results) > 0 {
				var lhs []ast.Expr
				for _, rn := range resNames {
					lhs = append(lhs, ast.NewIdent(rn))
				}
				stmts = append(stmts, &ast.AssignStmt{Lhs: lhs, Tok: token.ASSIGN, Rhs: x.Results})
			}
			stmts = append(stmts, &ast.BranchStmt{Tok: token.BREAK, Label: ast.NewIdent(label)})
			cur.Replace(&ast.BlockStmt{List: stmts})
		}
		return true
	}, func(cur *astutil.Cursor) bool {
		if _, ok := cur.Node().(*ast.FuncLit); ok {
			depth--
		}
		return true
	})
	_ = named
	var buf bytes.Buffer
	cfg := printer.Config{Mode: printer.UseSpaces | printer.TabIndent, Tabwidth: 8}
	for _, st := range nbody.List {
		if err := cfg.Fprint(&buf, fs, st); err != nil {
			return "", 0, "cannot print the helper's body"
		}
		buf.WriteString("\n")
	}
	return buf.String(), nret, ""
}

// fixImports adds the imports the inlined code needs and blanks the imports nothing refers to any more.
func fixImports(filename string, src []byte, add map[string]string, names map[string]string) []byte {
	fs := token.NewFileSet()
	f, err := parser.ParseFile(fs, filename, src, parser.SkipObjectResolution)
	if err != nil {
		return src
	}
	used := map[string]bool{}
	ast.Inspect(f, func(n ast.Node) bool {
		if se, ok := n.(*ast.SelectorExpr); ok {
			if id, ok := se.X.(*ast.Ident); ok {
				used[id.Name] = true
			}
		}
		return true
	})
	type ed struct {
		off  int
		del  int
		text string
	}
	var eds []ed
	for _, imp := range f.Imports {
		path := strings.Trim(imp.Path.Value, "\"")
		name := path[strings.LastIndex(path, "/")+1:]
		if imp.Name != nil {
			name = imp.Name.Name
		}
		if name == "_" || name == "." {
			continue
		}
		if imp.Name == nil {
			if pn, ok := names[path]; ok {
				name = pn
			} else {
				continue // unknown package name: leave the import alone
			}
			if !used[name] {
				eds = append(eds, ed{fs.Position(imp.Path.Pos()).Offset, 0, "_ "})
			}
			continue
		}
		if !used[name] {
			o := fs.Position(imp.Name.Pos()).Offset
			eds = append(eds, ed{o, len(imp.Name.Name), "_"})
		}
	}
	var addText strings.Builder
	var paths []string
	for p := range add {
		paths = append(paths, p)
	}
	sort.Strings(paths)
	for _, p := range paths {
		if used[add[p]] {
			fmt.Fprintf(&addText, "import %s %q\n", add[p], p)
		}
	}
	if addText.Len() > 0 {
		// right after the package clause line
		o := fs.Position(f.Name.End()).Offset
		for o < len(src) && src[o] != '\n' {
			o++
		}
		eds = append(eds, ed{o + 1, 0, addText.String() + fmt.Sprintf("//line %s:%d\n", filename, fs.Position(f.Name.End()).Line+1)})
	}
	sort.Slice(eds, func(i, j int) bool { return eds[i].off > eds[j].off })
	out := append([]byte(nil), src...)
	for _, e := range eds {
		out = append(out[:e.off], append([]byte(e.text), out[e.off+e.del:]...)...)
	}
	return out
}

// expandExpr substitutes a call of a one-expression helper by that expression with the arguments put in for the parameters. Only for
// arguments that are simple (identifiers, selectors, literals, address-of and conversions of those): evaluating them where the parameter
// stood, possibly more than once, is the same as evaluating them once before the call.
func (in *inliner) expandExpr(file *ast.File, src []byte, call *ast.CallExpr, c *callee) (string, string) {
	info := in.pk.TypesInfo
	sig := c.sig
	if call.Ellipsis.IsValid() || len(call.Args) != sig.Params().Len() {
		return "", "argument list form"
	}
	text := func(node ast.Node) string { return string(src[in.off(node.Pos()):in.off(node.End())]) }
	var simple func(e ast.Expr) bool
	simple = func(e ast.Expr) bool {
		switch x := ast.Unparen(e).(type) {
		case *ast.Ident, *ast.BasicLit:
			return true
		case *ast.SelectorExpr:
			return simple(x.X)
		case *ast.UnaryExpr:
			return x.Op == token.AND && simple(x.X)
		case *ast.StarExpr:
			return simple(x.X)
		case *ast.CallExpr:
			// a conversion
			if tv, ok := info.Types[x.Fun]; ok && tv.IsType() && len(x.Args) == 1 {
				return simple(x.Args[0])
			}
		}
		return false
	}
	subst := map[types.Object]string{}
	if sig.Recv() != nil {
		se, ok := ast.Unparen(call.Fun).(*ast.SelectorExpr)
		if !ok {
			return "", "method called through a value"
		}
		sel := info.Selections[se]
		if sel == nil || len(sel.Index()) != 1 || !simple(se.X) {
			return "", "receiver expression is not simple"
		}
		x := text(se.X)
		_, wantPtr := sig.Recv().Type().(*types.Pointer)
		_, havePtr := info.TypeOf(se.X).Underlying().(*types.Pointer)
		switch {
		case wantPtr && !havePtr:
			x = "(&" + x + ")"
		case !wantPtr && havePtr:
			x = "(*" + x + ")"
		default:
			x = "(" + x + ")"
		}
		if len(c.decl.Recv.List) == 1 && len(c.decl.Recv.List[0].Names) == 1 {
			subst[info.Defs[c.decl.Recv.List[0].Names[0]]] = x
		}
	}
	pi := 0
	for _, fld := range c.decl.Type.Params.List {
		names := fld.Names
		if len(names) == 0 {
			pi++
			continue
		}
		for _, nm := range names {
			a := call.Args[pi]
			if !simple(a) {
				return "", "an argument is not a simple expression"
			}
			at := info.TypeOf(a)
			pt := sig.Params().At(pi).Type()
			if at == nil || !types.Identical(at, pt) {
				// keep the parameter's static type
				return "", "an argument's type differs from the parameter's"
			}
			subst[info.Defs[nm]] = "(" + text(a) + ")"
			pi++
		}
	}
	scope := in.pk.Types.Scope().Innermost(call.Pos())
	qual, _, qwhy := in.qualifier(file, scope, call.Pos())
	if qwhy != "" {
		return "", qwhy
	}
	// print the returned expression of the helper with substitutions
	ret := c.decl.Body.List[0].(*ast.ReturnStmt).Results[0]
	csrc := in.src(c.file)
	start, end := in.off(ret.Pos()), in.off(ret.End())
	type rep struct {
		s, e int
		t    string
	}
	var reps []rep
	why := ""
	declStart, declEnd := c.decl.Pos(), c.decl.End()
	ast.Inspect(ret, func(n ast.Node) bool {
		switch n.(type) {
		case *ast.FuncLit:
			why = "the helper's expression holds a function literal"
			return false
		}
		id, ok := n.(*ast.Ident)
		if !ok {
			return true
		}
		obj := info.Uses[id]
		if obj == nil {
			return true
		}
		if t, ok := subst[obj]; ok {
			reps = append(reps, rep{in.off(id.Pos()) - start, in.off(id.End()) - start, t})
			return true
		}
		if pn, ok := obj.(*types.PkgName); ok {
			reps = append(reps, rep{in.off(id.Pos()) - start, in.off(id.End()) - start, qual(pn.Imported())})
			return true
		}
		if obj.Pos() >= declStart && obj.Pos() < declEnd {
			if v, isVar := obj.(*types.Var); !isVar || !v.IsField() {
				why = "the helper's expression declares identifiers"
			}
			return true
		}
		if obj.Parent() == in.pk.Types.Scope() || obj.Parent() == types.Universe {
			if _, o := scope.LookupParent(id.Name, call.Pos()); o != obj {
				why = "the identifier " + id.Name + " is shadowed at the call site"
			}
		}
		return true
	})
	if why != "" {
		return "", why
	}
	out := string(csrc[start:end])
	sort.Slice(reps, func(i, j int) bool { return reps[i].s > reps[j].s })
	for _, r := range reps {
		out = out[:r.s] + r.t + out[r.e:]
	}
	return "(" + out + ")", ""
}

func isNilIdent(e ast.Expr) bool {
	id, ok := ast.Unparen(e).(*ast.Ident)
	return ok && id.Name == "nil"
}

// handler is the caller's `if err != nil { ... return ... }` block that follows (or belongs to) the call site.
type handler struct {
	types []string // the helper's result types, written for the caller's file
	lhs   []string // the names the call's results are bound to at the site ("_" allowed)
	body  string   // the statements of the handler
}

func (h *handler) stmts(fs *token.FileSet) ([]ast.Stmt, error) {
	f, err := parser.ParseFile(fs, "", "package p\nfunc _() {\n"+h.body+"\n}", parser.SkipObjectResolution)
	if err != nil {
		return nil, err
	}
	return f.Decls[0].(*ast.FuncDecl).Body.List, nil
}

// handlerOf recognises `a, err := h(...)` followed by `if err != nil { ...; return ... }` (no else), or the if-with-init form of it.
func (in *inliner) handlerOf(src []byte, st ast.Stmt, form string, next ast.Stmt, sig *types.Signature) *handler {
	if sig.Results().Len() == 0 {
		return nil
	}
	if n, ok := sig.Results().At(sig.Results().Len() - 1).Type().(*types.Named); !ok || n.Obj().Name() != "error" || n.Obj().Pkg() != nil {
		return nil
	}
	var as *ast.AssignStmt
	var ifs *ast.IfStmt
	switch form {
	case "assign":
		as = st.(*ast.AssignStmt)
		ifs, _ = next.(*ast.IfStmt)
		if ifs == nil || ifs.Init != nil {
			return nil
		}
	case "if-init":
		ifs = st.(*ast.IfStmt)
		as = ifs.Init.(*ast.AssignStmt)
	default:
		return nil
	}
	if ifs.Else != nil || len(as.Lhs) != sig.Results().Len() {
		return nil
	}
	var lhs []string
	for _, l := range as.Lhs {
		id, ok := l.(*ast.Ident)
		if !ok {
			return nil
		}
		lhs = append(lhs, id.Name)
	}
	errName := lhs[len(lhs)-1]
	be, ok := ifs.Cond.(*ast.BinaryExpr)
	if !ok || be.Op != token.NEQ || !isNilIdent(be.Y) || errName == "_" {
		return nil
	}
	if id, ok := be.X.(*ast.Ident); !ok || id.Name != errName {
		return nil
	}
	n := len(ifs.Body.List)
	if n == 0 || n > 12 {
		return nil
	}
	last, ok := ifs.Body.List[n-1].(*ast.ReturnStmt)
	if !ok {
		return nil
	}
	_ = last
	bad := false
	ast.Inspect(ifs.Body, func(nd ast.Node) bool {
		switch x := nd.(type) {
		case *ast.ReturnStmt:
			if len(x.Results) == 0 {
				bad = true // a bare return reads the caller's named results
			}
		case *ast.LabeledStmt, *ast.FuncLit, *ast.DeferStmt, *ast.GoStmt:
			bad = true
		case *ast.BranchStmt:
			bad = true
		}
		return true
	})
	if bad {
		return nil
	}
	return &handler{lhs: lhs, body: string(src[in.off(ifs.Body.Lbrace)+1 : in.off(ifs.Body.Rbrace)])}
}
