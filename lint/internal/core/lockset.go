package core

import (
	"fmt"
	"go/token"
	"go/types"
	"sort"
	"strings"

	"golang.org/x/tools/go/ssa"
)

// LockMode: how a lock is held.
type LockMode int

const (
	NotHeld LockMode = iota
	ReadHeld
	WriteHeld
)

// Lockset maps a lock (identified by type and field, or by package-level variable) to the mode it is certainly held in.
type Lockset map[string]LockMode

func (l Lockset) clone() Lockset {
	o := make(Lockset, len(l))
	for k, v := range l {
		o[k] = v
	}
	return o
}

func (l Lockset) String() string {
	var ks []string
	for k, m := range l {
		s := k
		if m == ReadHeld {
			s += "(r)"
		}
		ks = append(ks, s)
	}
	sort.Strings(ks)
	return "{" + strings.Join(ks, ", ") + "}"
}

func meet(a, b Lockset) Lockset {
	o := Lockset{}
	for k, v := range a {
		if w, ok := b[k]; ok {
			if w < v {
				v = w
			}
			o[k] = v
		}
	}
	return o
}

func equalLS(a, b Lockset) bool {
	if len(a) != len(b) {
		return false
	}
	for k, v := range a {
		if b[k] != v {
			return false
		}
	}
	return true
}

// LockKeyOf names the mutex a Lock/Unlock call is applied to: "store.ChainDatabase.RW", "consensus.sigCache.Mutex" …
// (type based: all instances of a type share the key).
func LockKeyOf(recv ssa.Value) (string, bool) {
	switch x := recv.(type) {
	case *ssa.FieldAddr:
		f := FieldOf(x)
		base := x.X
		if g, ok := base.(*ssa.Global); ok {
			return shortPkg(g.Pkg.Pkg.Path()) + "." + g.Name() + "." + f.Name(), true
		}
		// embedded struct by value: &X.inner.mu
		t := base.Type()
		if p, ok := t.Underlying().(*types.Pointer); ok {
			t = p.Elem()
		}
		if n, ok := t.(*types.Named); ok {
			pk := ""
			if n.Obj().Pkg() != nil {
				pk = shortPkg(n.Obj().Pkg().Path()) + "."
			}
			return pk + n.Obj().Name() + "." + f.Name(), true
		}
		if inner, ok := base.(*ssa.FieldAddr); ok {
			if k, ok := LockKeyOf(inner); ok {
				return k + "." + f.Name(), true
			}
		}
	case *ssa.Global:
		return shortPkg(x.Pkg.Pkg.Path()) + "." + x.Name(), true
	case *ssa.UnOp:
		// a pointer to a mutex loaded from a field: *(&X.mu) where mu is *sync.Mutex
		if x.Op == token.MUL {
			return LockKeyOf(x.X)
		}
	}
	return "", false
}

func shortPkg(path string) string {
	if i := strings.LastIndex(path, "/"); i >= 0 {
		return path[i+1:]
	}
	return path
}

// lockOp classifies a call instruction as a mutex operation.
func lockOp(ci ssa.CallInstruction) (key string, acquire bool, mode LockMode, ok bool) {
	cc := ci.Common()
	if cc.IsInvoke() {
		return
	}
	sc := cc.StaticCallee()
	if sc == nil || sc.Pkg == nil || sc.Pkg.Pkg.Path() != "sync" || len(cc.Args) == 0 {
		return
	}
	recv := sc.Signature.Recv()
	if recv == nil {
		return
	}
	rt := recv.Type().String()
	if rt != "*sync.Mutex" && rt != "*sync.RWMutex" {
		return
	}
	switch sc.Name() {
	case "Lock":
		acquire, mode = true, WriteHeld
	case "RLock":
		acquire, mode = true, ReadHeld
	case "Unlock":
		acquire, mode = false, WriteHeld
	case "RUnlock":
		acquire, mode = false, ReadHeld
	default:
		return
	}
	key, ok = LockKeyOf(cc.Args[0])
	return
}

// LockAnalysis computes must-locksets per instruction (intra-procedural) and answers caller-context queries.
type LockAnalysis struct {
	P       *Program
	before  map[ssa.Instruction]Lockset
	done    map[*ssa.Function]bool
	callers map[*ssa.Function][]callerSite
	escapes map[*ssa.Function]string
	skip    func(fn *ssa.Function) bool
	acqMemo map[*ssa.Function]map[string]LockMode
	netMemo map[*ssa.Function][2]interface{}
}

type callerSite struct {
	site  ssa.Instruction // the instruction whose lockset applies (nil = no locks: goroutine start / unknown)
	label string
}

// NewLockAnalysis prepares the analysis; skip filters out functions that only serve tests.
func NewLockAnalysis(p *Program, skip func(fn *ssa.Function) bool) *LockAnalysis {
	la := &LockAnalysis{P: p, before: map[ssa.Instruction]Lockset{}, done: map[*ssa.Function]bool{}, callers: map[*ssa.Function][]callerSite{}, escapes: map[*ssa.Function]string{}, skip: skip}
	la.index()
	return la
}

// index builds, for every repository function, the list of sites it can be invoked from.
func (la *LockAnalysis) index() {
	implCache := map[*types.Func][]*ssa.Function{}
	for _, fn := range la.P.SrcFuncs {
		if la.skip != nil && la.skip(fn) {
			continue
		}
		for _, b := range fn.Blocks {
			for _, in := range b.Instrs {
				// function values that escape (callbacks, AfterFunc arguments, stored handlers)
				for _, op := range in.Operands(nil) {
					if *op == nil {
						continue
					}
					var target *ssa.Function
					switch v := (*op).(type) {
					case *ssa.Function:
						target = v
					case *ssa.MakeClosure:
						continue
					}
					if target == nil {
						continue
					}
					if ci, ok := in.(ssa.CallInstruction); ok && ci.Common().Value == target {
						continue // called, not passed
					}
					if mc, ok := in.(*ssa.MakeClosure); ok && mc.Fn == target {
						continue
					}
					la.escapes[target] = la.P.Pos(in.Pos())
				}
				switch x := in.(type) {
				case *ssa.MakeClosure:
					cl := x.Fn.(*ssa.Function)
					la.closureSites(cl, x, fn)
				case ssa.CallInstruction:
					cc := x.Common()
					var site ssa.Instruction = x
					label := FuncName(fn)
					if _, isGo := x.(*ssa.Go); isGo {
						site = nil
						label = "go statement in " + FuncName(fn)
					}
					if sc := cc.StaticCallee(); sc != nil {
						if mc, ok := cc.Value.(*ssa.MakeClosure); ok {
							_ = mc // handled by closureSites
							continue
						}
						tgt := sc
						if sc.Synthetic != "" && sc.Object() == nil {
							// wrapper / bound method thunk: attribute to the wrapped method
							if o := CalleeObj(x); o != nil {
								if f := la.P.FuncOf(o); f != nil {
									tgt = f
								}
							}
						}
						la.callers[tgt] = append(la.callers[tgt], callerSite{site, label})
					} else if cc.IsInvoke() {
						impls, ok := implCache[cc.Method]
						if !ok {
							impls = la.implementations(cc.Method)
							implCache[cc.Method] = impls
						}
						for _, f := range impls {
							la.callers[f] = append(la.callers[f], callerSite{site, label})
						}
					}
				}
			}
		}
	}
}

// implementations lists the repository methods that may be the target of an interface method call.
func (la *LockAnalysis) implementations(m *types.Func) []*ssa.Function {
	var out []*ssa.Function
	it, ok := recvOf(m).Underlying().(*types.Interface)
	if !ok {
		return nil
	}
	for _, pk := range la.P.Pkgs {
		sc := pk.Types.Scope()
		for _, name := range sc.Names() {
			tn, ok := sc.Lookup(name).(*types.TypeName)
			if !ok {
				continue
			}
			n, ok := tn.Type().(*types.Named)
			if !ok {
				continue
			}
			if _, isI := n.Underlying().(*types.Interface); isI {
				continue
			}
			for _, t := range []types.Type{n, types.NewPointer(n)} {
				if !types.Implements(t, it) {
					continue
				}
				obj, _, _ := types.LookupFieldOrMethod(t, true, pk.Types, m.Name())
				if f, ok := obj.(*types.Func); ok {
					if sf := la.P.FuncOf(f); sf != nil && sf.Blocks != nil {
						out = append(out, sf)
					}
				}
				break
			}
		}
	}
	return out
}

// closureSites records where an anonymous function created by mc (inside outer) is invoked.
func (la *LockAnalysis) closureSites(cl *ssa.Function, mc *ssa.MakeClosure, outer *ssa.Function) {
	refs := mc.Referrers()
	if refs == nil {
		return
	}
	var follow func(v ssa.Value, refs []ssa.Instruction, depth int)
	follow = func(v ssa.Value, refs []ssa.Instruction, depth int) {
		for _, r := range refs {
			switch r := r.(type) {
			case *ssa.Go:
				if r.Call.Value == v {
					la.callers[cl] = append(la.callers[cl], callerSite{nil, "go statement in " + FuncName(outer)})
				} else {
					la.callers[cl] = append(la.callers[cl], callerSite{nil, "argument of a go statement in " + FuncName(outer)})
				}
			case *ssa.Defer:
				la.callers[cl] = append(la.callers[cl], callerSite{r, "deferred in " + FuncName(outer)})
			case *ssa.Call:
				if r.Call.Value == v {
					la.callers[cl] = append(la.callers[cl], callerSite{r, FuncName(outer)})
					continue
				}
				// passed as an argument
				callee := r.Call.StaticCallee()
				name := ""
				if callee != nil {
					name = callee.String()
				}
				switch {
				case strings.HasPrefix(name, "time.AfterFunc"), strings.HasPrefix(name, "(*sync.Once).Do") && false:
					la.callers[cl] = append(la.callers[cl], callerSite{nil, "timer callback created in " + FuncName(outer)})
				default:
					// assumed to be invoked synchronously by the callee while the caller's locks are still held
					la.callers[cl] = append(la.callers[cl], callerSite{r, "callback passed in " + FuncName(outer)})
				}
			case *ssa.MakeClosure:
				// captured by another closure: continue at the corresponding free variable
				inner, _ := r.Fn.(*ssa.Function)
				for i, bnd := range r.Bindings {
					if bnd == v && inner != nil && i < len(inner.FreeVars) && depth < 4 {
						fv := inner.FreeVars[i]
						if fv.Referrers() != nil {
							saved := outer
							outer = inner
							follow(fv, *fv.Referrers(), depth+1)
							outer = saved
						}
					}
				}
			case *ssa.Store:
				if al, ok := r.Addr.(*ssa.Alloc); ok && r.Val == v && depth < 3 {
					// local variable holding the closure: follow its loads, also inside closures that capture the variable
					var cell func(addr ssa.Value, d int)
					cell = func(addr ssa.Value, d int) {
						if addr.Referrers() == nil || d > 3 {
							return
						}
						for _, ld := range *addr.Referrers() {
							switch ld := ld.(type) {
							case *ssa.UnOp:
								if ld.Op == token.MUL && ld.Referrers() != nil {
									follow(ld, *ld.Referrers(), depth+1)
								}
							case *ssa.MakeClosure:
								inner, _ := ld.Fn.(*ssa.Function)
								for i, bnd := range ld.Bindings {
									if bnd == addr && inner != nil && i < len(inner.FreeVars) {
										saved := outer
										outer = inner
										cell(inner.FreeVars[i], d+1)
										outer = saved
									}
								}
							}
						}
					}
					cell(al, 0)
				} else {
					la.callers[cl] = append(la.callers[cl], callerSite{nil, "stored in " + FuncName(outer)})
				}
			case *ssa.MakeInterface, *ssa.ChangeType:
				if rv, ok := r.(ssa.Value); ok && rv.Referrers() != nil && depth < 3 {
					follow(rv, *rv.Referrers(), depth+1)
				}
			case *ssa.Phi:
				if r.Referrers() != nil && depth < 3 {
					follow(r, *r.Referrers(), depth+1)
				}
			default:
				// composite literal field, return value … : unknown invocation context
				if _, isDbg := r.(*ssa.DebugRef); !isDbg {
					la.callers[cl] = append(la.callers[cl], callerSite{nil, "escapes in " + FuncName(outer)})
				}
			}
		}
	}
	follow(mc, *refs, 0)
}

// analyse computes the lockset before every instruction of fn.
func (la *LockAnalysis) analyse(fn *ssa.Function) {
	if la.done[fn] {
		return
	}
	la.done[fn] = true
	if len(fn.Blocks) == 0 {
		return
	}
	in := map[*ssa.BasicBlock]Lockset{}
	out := map[*ssa.BasicBlock]Lockset{}
	visited := map[*ssa.BasicBlock]bool{}
	work := []*ssa.BasicBlock{fn.Blocks[0]}
	in[fn.Blocks[0]] = Lockset{}
	for len(work) > 0 {
		b := work[0]
		work = work[1:]
		cur := in[b].clone()
		for _, ins := range b.Instrs {
			la.before[ins] = cur.clone()
			ci, ok := ins.(ssa.CallInstruction)
			if !ok {
				continue
			}
			if _, isDefer := ci.(*ssa.Defer); isDefer {
				continue // a deferred Unlock keeps the lock until the function returns
			}
			if _, isGo := ci.(*ssa.Go); isGo {
				continue
			}
			if key, acq, mode, ok := lockOp(ci); ok {
				if acq {
					cur[key] = mode
				} else {
					delete(cur, key)
				}
				continue
			}
			// wrappers: a repository function that returns with a lock held on all paths acquires it for the caller; one that
			// unlocks a lock it did not take releases it
			if sc := ci.Common().StaticCallee(); sc != nil && sc != fn && InRepo(sc) && sc.Blocks != nil {
				acq, rel := la.netEffect(sc)
				for k, m := range acq {
					cur[k] = m
				}
				for k := range rel {
					delete(cur, k)
				}
			}
		}
		if visited[b] && equalLS(out[b], cur) {
			continue
		}
		visited[b] = true
		out[b] = cur
		for _, s := range b.Succs {
			var n Lockset
			if old, ok := in[s]; ok {
				n = meet(old, cur)
				if equalLS(n, old) && visited[s] {
					continue
				}
			} else {
				n = cur.clone()
			}
			in[s] = n
			work = append(work, s)
		}
	}
}

// At returns the locks certainly held immediately before instruction ins (intra-procedural).
func (la *LockAnalysis) At(ins ssa.Instruction) Lockset {
	la.analyse(ins.Parent())
	return la.before[ins]
}

// Held decides whether lock `key` is certainly held in at least `mode` whenever ins executes, looking through callers
// (every resolved call site must hold it, recursively up to depth 8). On failure the witness names a path to an unlocked root.
func (la *LockAnalysis) Held(ins ssa.Instruction, key string, mode LockMode) (bool, string) {
	return la.held(ins, key, mode, map[*ssa.Function]bool{}, 0)
}

func (la *LockAnalysis) held(ins ssa.Instruction, key string, mode LockMode, stack map[*ssa.Function]bool, depth int) (bool, string) {
	if la.At(ins)[key] >= mode {
		return true, ""
	}
	fn := ins.Parent()
	if stack[fn] {
		return true, "" // recursion: decided by the other entries
	}
	if depth >= 8 {
		return false, "call chain deeper than 8 at " + FuncName(fn)
	}
	if why, esc := la.escapes[fn]; esc {
		return false, fmt.Sprintf("%s is used as a function value at %s (unknown calling context)", FuncName(fn), why)
	}
	sites := la.callers[fn]
	if len(sites) == 0 {
		return false, fmt.Sprintf("%s is an entry point (no caller in the repository) and does not hold %s", FuncName(fn), key)
	}
	stack[fn] = true
	defer delete(stack, fn)
	for _, s := range sites {
		if s.site == nil {
			return false, fmt.Sprintf("%s ← %s: starts without locks", FuncName(fn), s.label)
		}
		if ok, why := la.held(s.site, key, mode, stack, depth+1); !ok {
			return false, FuncName(fn) + " ← " + why
		}
	}
	return true, ""
}

// Callers exposes the invocation sites of fn (for reports).
func (la *LockAnalysis) Callers(fn *ssa.Function) int { return len(la.callers[fn]) }

// FieldAccess is one access to a struct field.
type FieldAccess struct {
	Instr ssa.Instruction
	Write bool
	Fresh bool // the struct was allocated in the same function (constructor): not shared yet
}

// FieldAccesses lists every access to field f in repository functions.
func (p *Program) FieldAccesses(f *types.Var, skip func(fn *ssa.Function) bool) []FieldAccess {
	var out []FieldAccess
	for _, fn := range p.SrcFuncs {
		if skip != nil && skip(fn) {
			continue
		}
		for _, b := range fn.Blocks {
			for _, in := range b.Instrs {
				switch x := in.(type) {
				case *ssa.FieldAddr:
					if FieldOf(x) != f {
						continue
					}
					out = append(out, FieldAccess{Instr: x, Write: addrWritten(x, 0), Fresh: isFresh(x.X) || p.freshByCallers(x.X, 0)})
				case *ssa.Field:
					if FieldOf(x) == f {
						out = append(out, FieldAccess{Instr: x})
					}
				}
			}
		}
	}
	return out
}

// freshByCallers: v is (a field of) a parameter of an unexported function or method, the function is only ever called statically, and
// every call site hands it an object that is fresh there (allocated in the caller, or fresh by the caller's callers): a private helper
// of a constructor works on an object nobody else can see yet.
func (p *Program) freshByCallers(v ssa.Value, depth int) bool {
	for {
		if fa, ok := v.(*ssa.FieldAddr); ok {
			v = fa.X
			continue
		}
		break
	}
	par, ok := v.(*ssa.Parameter)
	if !ok || depth > 2 {
		return false
	}
	g := par.Parent()
	obj, _ := g.Object().(*types.Func)
	if obj == nil || obj.Exported() {
		return false
	}
	idx := -1
	for i, q := range g.Params {
		if q == par {
			idx = i
		}
	}
	n := 0
	for _, fn := range p.SrcFuncs {
		for _, b := range fn.Blocks {
			for _, in := range b.Instrs {
				// the function used as a value: unknown callers
				if _, isCall := in.(ssa.CallInstruction); !isCall {
					for _, op := range in.Operands(nil) {
						if f, isF := (*op).(*ssa.Function); isF && f == g {
							return false
						}
					}
					continue
				}
				ci := in.(ssa.CallInstruction)
				if ci.Common().StaticCallee() != g {
					for _, a := range ci.Common().Args {
						if f, isF := a.(*ssa.Function); isF && f == g {
							return false
						}
					}
					continue
				}
				if _, isGo := in.(*ssa.Go); isGo {
					return false
				}
				n++
				a := ci.Common().Args
				if idx < 0 || idx >= len(a) || !(isFresh(a[idx]) || p.freshByCallers(a[idx], depth+1)) {
					return false
				}
			}
		}
	}
	return n > 0
}

func isFresh(v ssa.Value) bool {
	switch x := v.(type) {
	case *ssa.Alloc:
		return true
	case *ssa.FieldAddr:
		return isFresh(x.X)
	case *ssa.UnOp:
		// load of a local variable that was assigned a fresh allocation only
		if al, ok := x.X.(*ssa.Alloc); ok && x.Op == token.MUL && al.Referrers() != nil {
			fresh := false
			for _, r := range *al.Referrers() {
				if st, ok := r.(*ssa.Store); ok && st.Addr == al {
					if _, isAl := st.Val.(*ssa.Alloc); isAl {
						fresh = true
					} else {
						return false
					}
				}
			}
			return fresh
		}
	}
	return false
}

// addrWritten: is the memory at addr (or the map/slice loaded from it) modified through this address computation?
func addrWritten(addr ssa.Value, depth int) bool {
	if addr.Referrers() == nil || depth > 3 {
		return false
	}
	for _, r := range *addr.Referrers() {
		switch r := r.(type) {
		case *ssa.Store:
			if r.Addr == addr {
				return true
			}
		case *ssa.UnOp:
			if r.Op != token.MUL || r.Referrers() == nil {
				continue
			}
			// loaded map / slice / pointer: element updates count as writes of the protected structure
			for _, u := range *r.Referrers() {
				switch u := u.(type) {
				case *ssa.MapUpdate:
					if u.Map == r {
						return true
					}
				case *ssa.IndexAddr:
					if u.X == r && addrWritten(u, depth+1) {
						return true
					}
				case *ssa.Call:
					if b, ok := u.Call.Value.(*ssa.Builtin); ok && b.Name() == "delete" && len(u.Call.Args) > 0 && u.Call.Args[0] == r {
						return true
					}
					// the loaded map / pointer / slice is handed to a function that modifies what it is given
					if sc := u.Call.StaticCallee(); sc != nil && sc.Blocks != nil {
						for i, a := range u.Call.Args {
							if a == ssa.Value(r) && i < len(sc.Params) && depth < 3 && paramWritten(sc.Params[i], depth+1) {
								return true
							}
						}
					}
				}
			}
		case *ssa.IndexAddr:
			if r.X == addr && addrWritten(r, depth+1) {
				return true
			}
		case *ssa.FieldAddr:
			if r.X == addr && addrWritten(r, depth+1) {
				return true
			}
		}
	}
	return false
}

// Acquires returns the locks fn may acquire, directly or through static callees inside the repository.
func (la *LockAnalysis) Acquires(fn *ssa.Function) map[string]LockMode {
	if la.acqMemo == nil {
		la.acqMemo = map[*ssa.Function]map[string]LockMode{}
	}
	return la.acquires(fn, map[*ssa.Function]bool{})
}

func (la *LockAnalysis) acquires(fn *ssa.Function, onStack map[*ssa.Function]bool) map[string]LockMode {
	if m, ok := la.acqMemo[fn]; ok {
		return m
	}
	out := map[string]LockMode{}
	if onStack[fn] || fn.Blocks == nil || !InRepo(fn) {
		return out
	}
	onStack[fn] = true
	for _, b := range fn.Blocks {
		for _, in := range b.Instrs {
			ci, ok := in.(ssa.CallInstruction)
			if !ok {
				continue
			}
			if _, isGo := ci.(*ssa.Go); isGo {
				continue
			}
			if key, acq, mode, ok := lockOp(ci); ok {
				if acq && out[key] < mode {
					out[key] = mode
				}
				continue
			}
			if sc := ci.Common().StaticCallee(); sc != nil {
				for k, m := range la.acquires(sc, onStack) {
					if out[k] < m {
						out[k] = m
					}
				}
			}
		}
	}
	delete(onStack, fn)
	if len(onStack) == 0 {
		la.acqMemo[fn] = out // only cache results that are not cut short by a cycle
	}
	return out
}

// Reentry is a call made while a lock is held into a function that may acquire the same lock again.
type Reentry struct {
	Site   ssa.CallInstruction
	Key    string
	Callee *ssa.Function
}

// Reentries finds, in fn, acquisitions of a lock that is already in the must-lockset: directly (Lock while held) or through a
// static callee that may acquire it. A read lock re-acquired for reading is not reported.
func (la *LockAnalysis) Reentries(fn *ssa.Function) []Reentry {
	var out []Reentry
	for _, b := range fn.Blocks {
		for _, in := range b.Instrs {
			ci, ok := in.(ssa.CallInstruction)
			if !ok {
				continue
			}
			if _, isGo := ci.(*ssa.Go); isGo {
				continue
			}
			if _, isDefer := ci.(*ssa.Defer); isDefer {
				continue
			}
			held := la.At(ci)
			if len(held) == 0 {
				continue
			}
			if key, acq, _, ok := lockOp(ci); ok {
				if acq && held[key] != NotHeld { // read inside read included: a writer waiting in between blocks the inner RLock for good
					out = append(out, Reentry{ci, key, nil})
				}
				continue
			}
			sc := ci.Common().StaticCallee()
			if sc == nil {
				continue
			}
			for k := range la.Acquires(sc) {
				if held[k] != NotHeld {
					out = append(out, Reentry{ci, k, sc})
				}
			}
		}
	}
	return out
}

// Universe lists every lock key acquired somewhere in the given functions.
func (la *LockAnalysis) Universe(fns []*ssa.Function) []string {
	set := map[string]bool{}
	for _, fn := range fns {
		for _, b := range fn.Blocks {
			for _, in := range b.Instrs {
				if ci, ok := in.(ssa.CallInstruction); ok {
					if key, acq, _, ok := lockOp(ci); ok && acq {
						set[key] = true
					}
				}
			}
		}
	}
	return SortedKeys(set)
}

// HeldSet returns the locks (from the candidates) certainly held, in any mode, whenever ins executes (caller context included).
func (la *LockAnalysis) HeldSet(ins ssa.Instruction, candidates []string) map[string]bool {
	out := map[string]bool{}
	for _, k := range candidates {
		if ok, _ := la.Held(ins, k, ReadHeld); ok {
			out[k] = true
		}
	}
	return out
}

// OrderEdge says: somewhere lock To is acquired while From is held.
type OrderEdge struct {
	From, To string
	Site     ssa.Instruction
}

// OrderEdges collects the lock-order edges of the given functions (direct acquisitions and acquisitions by static callees).
func (la *LockAnalysis) OrderEdges(fns []*ssa.Function) []OrderEdge {
	var out []OrderEdge
	seen := map[[2]string]bool{}
	for _, fn := range fns {
		for _, b := range fn.Blocks {
			for _, in := range b.Instrs {
				ci, ok := in.(ssa.CallInstruction)
				if !ok {
					continue
				}
				if _, isGo := ci.(*ssa.Go); isGo {
					continue
				}
				if _, isDefer := ci.(*ssa.Defer); isDefer {
					continue
				}
				held := la.At(ci)
				if len(held) == 0 {
					continue
				}
				acq := map[string]LockMode{}
				if key, a, mode, ok := lockOp(ci); ok {
					if a {
						acq[key] = mode
					}
				} else if sc := ci.Common().StaticCallee(); sc != nil {
					acq = la.Acquires(sc)
				}
				for to := range acq {
					for from := range held {
						if from == to || seen[[2]string{from, to}] {
							continue
						}
						seen[[2]string{from, to}] = true
						out = append(out, OrderEdge{from, to, ci})
					}
				}
			}
		}
	}
	sort.Slice(out, func(i, j int) bool {
		if out[i].From != out[j].From {
			return out[i].From < out[j].From
		}
		return out[i].To < out[j].To
	})
	return out
}

// OrderCycle returns a cycle in the lock-order graph (nil if acyclic).
func OrderCycle(edges []OrderEdge) []string {
	adj := map[string][]string{}
	for _, e := range edges {
		adj[e.From] = append(adj[e.From], e.To)
	}
	color := map[string]int{}
	var path []string
	var cyc []string
	var dfs func(n string) bool
	dfs = func(n string) bool {
		color[n] = 1
		path = append(path, n)
		for _, m := range adj[n] {
			if color[m] == 1 {
				for i, p := range path {
					if p == m {
						cyc = append(append([]string{}, path[i:]...), m)
						return true
					}
				}
			}
			if color[m] == 0 && dfs(m) {
				return true
			}
		}
		color[n] = 2
		path = path[:len(path)-1]
		return false
	}
	var nodes []string
	for n := range adj {
		nodes = append(nodes, n)
	}
	sort.Strings(nodes)
	for _, n := range nodes {
		if color[n] == 0 && dfs(n) {
			return cyc
		}
	}
	return nil
}

// ReachedOnlyFrom: every chain of callers of fn ends in one of the allowed roots (used to recognise single-threaded start-up code).
func (la *LockAnalysis) ReachedOnlyFrom(fn *ssa.Function, allowed map[*ssa.Function]bool) bool {
	seen := map[*ssa.Function]bool{}
	var up func(f *ssa.Function, depth int) bool
	up = func(f *ssa.Function, depth int) bool {
		if allowed[f] {
			return true
		}
		if seen[f] {
			return true
		}
		seen[f] = true
		if depth > 10 {
			return false
		}
		if _, esc := la.escapes[f]; esc {
			return false
		}
		sites := la.callers[f]
		if len(sites) == 0 {
			return false
		}
		for _, s := range sites {
			if s.site == nil {
				return false
			}
			if !up(s.site.Parent(), depth+1) {
				return false
			}
		}
		return true
	}
	return up(fn, 0)
}

// netEffect summarises a small wrapper: the locks held at every return that were taken inside (acquired for the caller) and the locks
// unlocked without having been taken inside (released for the caller). Only direct lock operations of the function count.
func (la *LockAnalysis) netEffect(fn *ssa.Function) (acq map[string]LockMode, rel map[string]bool) {
	if la.netMemo == nil {
		la.netMemo = map[*ssa.Function][2]interface{}{}
	}
	if m, ok := la.netMemo[fn]; ok {
		return m[0].(map[string]LockMode), m[1].(map[string]bool)
	}
	acq, rel = map[string]LockMode{}, map[string]bool{}
	la.netMemo[fn] = [2]interface{}{acq, rel} // recursion guard
	hasOp := false
	deferred := map[string]bool{}
	for _, b := range fn.Blocks {
		for _, in := range b.Instrs {
			ci, ok := in.(ssa.CallInstruction)
			if !ok {
				continue
			}
			if key, a, _, ok := lockOp(ci); ok {
				hasOp = true
				if _, isDefer := ci.(*ssa.Defer); isDefer && !a {
					deferred[key] = true
				}
			}
		}
	}
	if !hasOp || len(fn.Blocks) > 12 {
		return acq, rel
	}
	la.analyse(fn)
	first := true
	for _, r := range Returns(fn) {
		held := la.before[r]
		if first {
			for k, m := range held {
				if !deferred[k] {
					acq[k] = m
				}
			}
			first = false
			continue
		}
		for k := range acq {
			if _, ok := held[k]; !ok {
				delete(acq, k)
			}
		}
	}
	// releases: an Unlock of a key that is not in the must-lockset at that point
	for _, b := range fn.Blocks {
		for _, in := range b.Instrs {
			ci, ok := in.(ssa.CallInstruction)
			if !ok {
				continue
			}
			if _, isDefer := ci.(*ssa.Defer); isDefer {
				continue
			}
			if key, a, _, ok := lockOp(ci); ok && !a {
				if _, held := la.before[ci][key]; !held {
					rel[key] = true
				}
			}
		}
	}
	la.netMemo[fn] = [2]interface{}{acq, rel}
	return acq, rel
}

// paramWritten: the memory a parameter refers to (map entries, slice elements, pointee fields) is modified by its function,
// directly or by handing it on to a static callee (bounded depth).
func paramWritten(p *ssa.Parameter, depth int) bool {
	if p.Referrers() == nil || depth > 3 {
		return false
	}
	for _, r := range *p.Referrers() {
		switch u := r.(type) {
		case *ssa.MapUpdate:
			if u.Map == ssa.Value(p) {
				return true
			}
		case *ssa.Store:
			if u.Addr == ssa.Value(p) {
				return true
			}
		case *ssa.IndexAddr:
			if u.X == ssa.Value(p) && addrWritten(u, depth+1) {
				return true
			}
		case *ssa.FieldAddr:
			if u.X == ssa.Value(p) && addrWritten(u, depth+1) {
				return true
			}
		case *ssa.Call:
			if b, ok := u.Call.Value.(*ssa.Builtin); ok && b.Name() == "delete" && len(u.Call.Args) > 0 && u.Call.Args[0] == ssa.Value(p) {
				return true
			}
			if sc := u.Call.StaticCallee(); sc != nil && sc.Blocks != nil {
				for i, a := range u.Call.Args {
					if a == ssa.Value(p) && i < len(sc.Params) && paramWritten(sc.Params[i], depth+1) {
						return true
					}
				}
			}
		}
	}
	return false
}

// AddrWritten: is the memory at the field address (or the map/slice loaded from it) modified through this address computation?
func AddrWritten(addr ssa.Value) bool { return addrWritten(addr, 0) }
