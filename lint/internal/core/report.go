package core

import (
	"encoding/json"
	"fmt"
	"os"
	"path/filepath"
	"regexp"
	"sort"
	"strings"
)

// Finding is one entry of /verif/known_findings.json.
type Finding struct {
	Property string `json:"property"`
	Key      string `json:"key,omitempty"`   // obligation key of a recorded (unrepaired) defect
	What     string `json:"what"`            // the failing input / call site / history
	Fixed    string `json:"fixed,omitempty"` // commit of the repair; a fixed entry suppresses nothing
	Defect   string `json:"defect,omitempty"`
}

// LoadFindings reads the committed known-findings file.
func LoadFindings(path string) ([]Finding, error) {
	b, err := os.ReadFile(path)
	if err != nil {
		return nil, err
	}
	var f struct {
		Findings []Finding `json:"findings"`
	}
	if err := json.Unmarshal(b, &f); err != nil {
		return nil, err
	}
	return f.Findings, nil
}

var unsafeChars = regexp.MustCompile(`[^A-Za-z0-9_.-]+`)

// Report prints the verdict, writes the evidence file and replay files and returns the exit status.
func Report(c *Ctx, findings []Finding, verifDir string, seed int, wall float64, cmdline string) int {
	known := map[string]Finding{}
	for _, f := range findings {
		if f.Property == c.Prop && f.Fixed == "" && f.Key != "" {
			known[f.Key] = f
		}
	}
	aliasOf := map[string]string{}
	// a finding recorded at a private helper that was written out inside its only caller is the same finding at that caller
	for _, pr := range c.InlinedPairs() {
		hf, cf := SpecForms(pr[0]), SpecForms(pr[1])
		for k, f := range known {
			for i := range hf {
				if i < len(cf) && strings.Contains(k, hf[i]) {
					if k2 := strings.ReplaceAll(k, hf[i], cf[i]); k2 != k {
						if _, dup := known[k2]; !dup {
							known[k2] = f
							aliasOf[k2] = k
						}
					}
				}
			}
		}
	}
	sort.SliceStable(c.Obligations, func(i, j int) bool { return c.Obligations[i].Key < c.Obligations[j].Key })
	var discharged, violated, knownHit, nontrivial int
	var viol []*Obligation
	usedKnown := map[string]bool{}
	for _, o := range c.Obligations {
		if o.NonTrivial {
			nontrivial++
		}
		if o.Status == Discharged {
			discharged++
			continue
		}
		if f, ok := known[o.Key]; ok {
			knownHit++
			usedKnown[o.Key] = true
			if a, ok := aliasOf[o.Key]; ok {
				usedKnown[a] = true
			}
			fmt.Printf("KNOWN-FINDING: property=%s %s [%s] %s\n", c.Prop, f.What, o.Key, o.Pos)
			continue
		}
		violated++
		viol = append(viol, o)
	}
	// a listed finding that no longer reproduces is reported (not fatal): the entry should become a "fixed" one
	for k := range known {
		if _, isAlias := aliasOf[k]; !usedKnown[k] && !isAlias {
			fmt.Printf("NOTE: known finding %s no longer reproduces on this tree\n", k)
		}
	}
	replayDir := filepath.Join(verifDir, "evidence", "replay")
	os.MkdirAll(replayDir, 0o755)
	for _, o := range viol {
		name := c.Prop + "-" + unsafeChars.ReplaceAllString(o.Key, "_") + ".json"
		path := filepath.Join(replayDir, name)
		b, _ := json.MarshalIndent(map[string]interface{}{"property": c.Prop, "obligation": o, "replay_cmd": "bin/lemolint check " + c.Prop}, "", " ")
		os.WriteFile(path, b, 0o644)
		fmt.Printf("%s %s: %s — %s (%s)\n", strings.ToUpper(string(o.Status)), o.Key, o.Rule, o.Detail, o.Pos)
		fmt.Printf("VIOLATION property=%s replay=%s\n", c.Prop, path)
	}

	// samples: a spread of the obligations evaluated
	var samples []interface{}
	step := len(c.Obligations)/12 + 1
	for i := 0; i < len(c.Obligations); i += step {
		samples = append(samples, c.Obligations[i])
	}
	for _, o := range viol {
		samples = append(samples, o)
	}
	expl := "Static analysis over the type-checked program and its SSA form (no repository code is executed). Decided clauses — " +
		strings.Join(c.Clauses, " | ") + ". NOT decided — " + strings.Join(c.NotDecided, " | ")
	ev := map[string]interface{}{
		"property_id": c.Prop,
		"tier":        c.Tier,
		"seed":        seed,
		"level":       "other",
		"coverage": map[string]interface{}{
			"explanation":         expl,
			"obligations":         len(c.Obligations),
			"discharged":          discharged + knownHit,
			"known_findings_hit":  knownHit,
			"evaluations":         len(c.Obligations),
			"distinct_nontrivial": nontrivial,
			"rule":                "one obligation per rule instance and construct (keyed rule/construct, never by line); non-trivial = decided by a dominance, reachability, value-flow or call-graph argument rather than a syntactic identity",
			"samples":             samples,
			"packages_analysed":   len(c.Pkgs),
			"functions_analysed":  len(c.SrcFuncs),
			"checker_cmd":         cmdline,
			"trusted_base":        []string{"go/types", "golang.org/x/tools/go/packages, go/ssa, go/callgraph/vta v0.29.0", "the frozen rule tables in /verif/lint/internal/rules"},
			"notes":               c.Notes,
			"clauses":             c.Clauses,
			"not_decided":         c.NotDecided,
			"exhaustive":          true,
		},
		"assumptions": []string{
			"default build configuration linux/amd64 with cgo; test files are not analysed",
			"structural necessary conditions only: the behaviour itself (values, histories, schedules) is not decided, see coverage.not_decided",
		},
		"wall_s":     wall,
		"violations": violated,
	}
	b, _ := json.MarshalIndent(ev, "", " ")
	os.MkdirAll(filepath.Join(verifDir, "evidence"), 0o755)
	if err := os.WriteFile(filepath.Join(verifDir, "evidence", c.Prop+".json"), b, 0o644); err != nil {
		fmt.Println("cannot write evidence:", err)
		return 2
	}
	fmt.Printf("%s: %d obligations, %d discharged, %d known findings, %d violated (%d packages, %d functions, %.1fs)\n",
		c.Prop, len(c.Obligations), discharged, knownHit, violated, len(c.Pkgs), len(c.SrcFuncs), wall)
	if violated > 0 {
		return 1
	}
	if len(c.Obligations) == 0 {
		fmt.Printf("VIOLATION property=%s replay=%s\n", c.Prop, "no-obligations-evaluated")
		return 1
	}
	return 0
}
