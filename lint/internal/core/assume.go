package core

import (
	"go/token"
	"go/types"

	"golang.org/x/tools/go/ssa"
)

// Path-sensitive exploration of one function's CFG ("which returns can be reached, and what happened on the way, when
// these facts hold"). It is a tiny symbolic walk, not an interpreter:
//
//   - local cells (Alloc) are tracked along the path: a load observes the last value stored on this path;
//   - a phi takes the operand of the edge the path came in on;
//   - a branch on `x == nil` / `x != nil` / `!b` / `b == true` / a boolean SSA value is decided when the path already knows
//     the answer (an SSA value has one value per execution of an acyclic region), otherwise both edges are explored and the
//     assumption is recorded, so the same condition met again further down is decided consistently;
//   - sentinel error variables, errors.New/fmt.Errorf results and MakeInterface values are non-nil.
//
// A path that would enter a block a second time is abandoned and the exploration is reported incomplete (callers turn that
// into an undecided obligation); the regions explored by the rules are loop-free.

// Tri is a three-valued answer.
type Tri int

const (
	Unknown Tri = iota
	Yes
	No
)

// PathState is what is known on the path explored so far.
type PathState struct {
	cells   map[*ssa.Alloc]ssa.Value
	alias   map[ssa.Value]ssa.Value
	nilK    map[ssa.Value]bool // canonical value -> true: nil, false: non-nil
	boolK   map[ssa.Value]bool // canonical condition -> its value
	marks   map[string]bool
	visited map[*ssa.BasicBlock]bool
}

// NewPathState returns an empty state.
func NewPathState() *PathState {
	return &PathState{cells: map[*ssa.Alloc]ssa.Value{}, alias: map[ssa.Value]ssa.Value{}, nilK: map[ssa.Value]bool{},
		boolK: map[ssa.Value]bool{}, marks: map[string]bool{}, visited: map[*ssa.BasicBlock]bool{}}
}

func (s *PathState) clone() *PathState {
	n := NewPathState()
	for k, v := range s.cells {
		n.cells[k] = v
	}
	for k, v := range s.alias {
		n.alias[k] = v
	}
	for k, v := range s.nilK {
		n.nilK[k] = v
	}
	for k, v := range s.boolK {
		n.boolK[k] = v
	}
	for k, v := range s.marks {
		n.marks[k] = v
	}
	for k, v := range s.visited {
		n.visited[k] = v
	}
	return n
}

// Mark / Marked let hooks remember that the path passed some instruction.
func (s *PathState) Mark(m string)        { s.marks[m] = true }
func (s *PathState) Marked(m string) bool { return s.marks[m] }

// Canon resolves v through the loads and phis seen on this path and through nil-preserving conversions.
func (s *PathState) Canon(v ssa.Value) ssa.Value {
	for i := 0; i < 64 && v != nil; i++ {
		if a, ok := s.alias[v]; ok && a != v {
			v = a
			continue
		}
		switch x := v.(type) {
		case *ssa.ChangeType:
			v = x.X
			continue
		case *ssa.ChangeInterface:
			v = x.X
			continue
		}
		break
	}
	return v
}

// AssumeNil records that v is nil (isNil) or non-nil on this path.
func (s *PathState) AssumeNil(v ssa.Value, isNil bool) { s.nilK[s.Canon(v)] = isNil }

// AssumeBool records the value of a boolean SSA value on this path.
func (s *PathState) AssumeBool(v ssa.Value, val bool) { s.assume(v, val) }

// IsNil answers whether v is nil on this path.
func (s *PathState) IsNil(v ssa.Value) Tri {
	v = s.Canon(v)
	if v == nil {
		return Unknown
	}
	if IsNilConst(v) {
		return Yes
	}
	if k, ok := s.nilK[v]; ok {
		if k {
			return Yes
		}
		return No
	}
	switch x := v.(type) {
	case *ssa.MakeInterface, *ssa.Alloc, *ssa.MakeClosure, *ssa.MakeMap, *ssa.MakeChan, *ssa.Function:
		return No
	case *ssa.UnOp:
		if x.Op == token.MUL {
			if g, ok := x.X.(*ssa.Global); ok && IsErrorType(g.Type().(*types.Pointer).Elem()) {
				return No // a sentinel error variable
			}
		}
	case *ssa.Call:
		if sc := x.Call.StaticCallee(); sc != nil && sc.Pkg != nil {
			switch sc.Pkg.Pkg.Path() + "." + sc.Name() {
			case "errors.New", "fmt.Errorf":
				return No
			}
		}
	}
	return Unknown
}

// eval decides a branch condition from what the path knows.
func (s *PathState) eval(c ssa.Value) Tri {
	c = s.Canon(c)
	if b, ok := BoolConst(c); ok {
		return tri(b)
	}
	if k, ok := s.boolK[c]; ok {
		return tri(k)
	}
	switch x := c.(type) {
	case *ssa.UnOp:
		if x.Op == token.NOT {
			return neg(s.eval(x.X))
		}
	case *ssa.BinOp:
		if x.Op != token.EQL && x.Op != token.NEQ {
			return Unknown
		}
		a, b := s.Canon(x.X), s.Canon(x.Y)
		var r Tri
		switch {
		case IsNilConst(a):
			r = s.IsNil(b)
		case IsNilConst(b):
			r = s.IsNil(a)
		default:
			if bv, ok := BoolConst(b); ok {
				r = s.eval(a)
				if !bv {
					r = neg(r)
				}
			} else if bv, ok := BoolConst(a); ok {
				r = s.eval(b)
				if !bv {
					r = neg(r)
				}
			} else {
				return Unknown
			}
		}
		if x.Op == token.NEQ {
			r = neg(r)
		}
		return r
	}
	return Unknown
}

// assume pushes "c has value val" down to the facts it is made of.
func (s *PathState) assume(c ssa.Value, val bool) {
	c = s.Canon(c)
	s.boolK[c] = val
	switch x := c.(type) {
	case *ssa.UnOp:
		if x.Op == token.NOT {
			s.assume(x.X, !val)
		}
	case *ssa.BinOp:
		if x.Op != token.EQL && x.Op != token.NEQ {
			return
		}
		eq := val == (x.Op == token.EQL) // the two operands are equal
		a, b := s.Canon(x.X), s.Canon(x.Y)
		switch {
		case IsNilConst(a):
			s.nilK[b] = eq
		case IsNilConst(b):
			s.nilK[a] = eq
		default:
			if bv, ok := BoolConst(b); ok {
				s.assume(a, bv == eq)
			} else if bv, ok := BoolConst(a); ok {
				s.assume(b, bv == eq)
			}
		}
	}
}

func tri(b bool) Tri {
	if b {
		return Yes
	}
	return No
}

func neg(t Tri) Tri {
	switch t {
	case Yes:
		return No
	case No:
		return Yes
	}
	return Unknown
}

// PathHooks are called while a path is walked. Instr returning false ends the path there (the path is "satisfied").
type PathHooks struct {
	Instr  func(in ssa.Instruction, st *PathState) bool
	Return func(r *ssa.Return, st *PathState)
	Panic  func(p *ssa.Panic, st *PathState)
}

// ExplorePaths walks every path that starts right after instruction `after` (or at the first instruction of `from` when
// after is nil). It returns the number of paths finished and whether the exploration was complete (no loop met, budget kept).
func ExplorePaths(from *ssa.BasicBlock, after ssa.Instruction, st *PathState, h PathHooks) (paths int, complete bool) {
	if st == nil {
		st = NewPathState()
	}
	complete = true
	budget := 50000
	clobber := closureWrittenCells(from.Parent())
	var walk func(b *ssa.BasicBlock, start int, st *PathState)
	enter := func(pred, b *ssa.BasicBlock, st *PathState) {
		if st.visited[b] {
			complete = false
			return
		}
		// phis take the operand of the incoming edge (all read before any is written)
		idx := -1
		for i, p := range b.Preds {
			if p == pred {
				idx = i
				break
			}
		}
		upd := map[ssa.Value]ssa.Value{}
		for _, in := range b.Instrs {
			phi, ok := in.(*ssa.Phi)
			if !ok {
				break
			}
			if idx >= 0 {
				upd[phi] = st.Canon(phi.Edges[idx])
			}
		}
		for k, v := range upd {
			st.alias[k] = v
		}
		walk(b, 0, st)
	}
	walk = func(b *ssa.BasicBlock, start int, st *PathState) {
		if budget <= 0 {
			complete = false
			return
		}
		st.visited[b] = true
		for i := start; i < len(b.Instrs); i++ {
			in := b.Instrs[i]
			switch x := in.(type) {
			case *ssa.Phi:
				continue
			case *ssa.Store:
				if al, ok := x.Addr.(*ssa.Alloc); ok {
					st.cells[al] = st.Canon(x.Val)
				}
			case *ssa.UnOp:
				if x.Op == token.MUL {
					if al, ok := x.X.(*ssa.Alloc); ok {
						if v, ok := st.cells[al]; ok {
							st.alias[x] = v
						}
					}
				}
			case *ssa.RunDefers:
				for al := range clobber {
					delete(st.cells, al)
				}
			case ssa.CallInstruction:
				// a call of a function value may run a closure of this function that assigns to a captured cell
				if _, isDefer := in.(*ssa.Defer); !isDefer {
					cc := x.Common()
					if (!cc.IsInvoke() && cc.StaticCallee() == nil) || calleeIsClosure(x) {
						for al := range clobber {
							delete(st.cells, al)
						}
					}
				}
			}
			if h.Instr != nil && !h.Instr(in, st) {
				budget--
				paths++
				return
			}
			switch x := in.(type) {
			case *ssa.If:
				switch st.eval(x.Cond) {
				case Yes:
					enter(b, b.Succs[0], st)
				case No:
					enter(b, b.Succs[1], st)
				default:
					t := st.clone()
					t.assume(x.Cond, true)
					enter(b, b.Succs[0], t)
					f := st.clone()
					f.assume(x.Cond, false)
					enter(b, b.Succs[1], f)
				}
				return
			case *ssa.Jump:
				enter(b, b.Succs[0], st)
				return
			case *ssa.Return:
				budget--
				paths++
				if h.Return != nil {
					h.Return(x, st)
				}
				return
			case *ssa.Panic:
				budget--
				paths++
				if h.Panic != nil {
					h.Panic(x, st)
				}
				return
			}
		}
	}
	start := 0
	if after != nil {
		from = after.Block()
		start = indexIn(after) + 1
	}
	walk(from, start, st)
	return paths, complete
}

func calleeIsClosure(ci ssa.CallInstruction) bool {
	if _, isDefer := ci.(*ssa.Defer); isDefer {
		return false
	}
	_, ok := ci.Common().Value.(*ssa.MakeClosure)
	return ok
}

// closureWrittenCells lists the local cells of fn that one of its closures assigns to.
func closureWrittenCells(fn *ssa.Function) map[*ssa.Alloc]bool {
	out := map[*ssa.Alloc]bool{}
	for _, b := range fn.Blocks {
		for _, in := range b.Instrs {
			mc, ok := in.(*ssa.MakeClosure)
			if !ok {
				continue
			}
			cf, ok := mc.Fn.(*ssa.Function)
			if !ok {
				continue
			}
			for i, bind := range mc.Bindings {
				al, ok := bind.(*ssa.Alloc)
				if !ok || i >= len(cf.FreeVars) {
					continue
				}
				if freeVarWritten(cf, cf.FreeVars[i], 0) {
					out[al] = true
				}
			}
		}
	}
	return out
}

func freeVarWritten(cf *ssa.Function, fv *ssa.FreeVar, depth int) bool {
	if depth > 4 {
		return true
	}
	if fv.Referrers() == nil {
		return false
	}
	for _, r := range *fv.Referrers() {
		switch r := r.(type) {
		case *ssa.Store:
			return true // assigned (Addr == fv) or the address itself is stored somewhere
		case *ssa.UnOp, *ssa.DebugRef, *ssa.FieldAddr, *ssa.IndexAddr:
			// a load, or access to a part of a captured aggregate (whole-value tracking is not affected)
		case *ssa.MakeClosure:
			inner, ok := r.Fn.(*ssa.Function)
			if !ok {
				return true
			}
			for i, b := range r.Bindings {
				if b == fv && i < len(inner.FreeVars) && freeVarWritten(inner, inner.FreeVars[i], depth+1) {
					return true
				}
			}
		default:
			return true // the address escapes (call argument, ...)
		}
	}
	return false
}
