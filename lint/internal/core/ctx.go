package core

import (
	"fmt"
	"go/ast"
	"go/token"
	"go/types"
	"os"
	"sort"
	"strings"

	"golang.org/x/tools/go/ssa"
)

// Status of an obligation.
type Status string

const (
	Discharged Status = "discharged"
	Violated   Status = "violated"
	Undecided  Status = "undecided" // counts as a violation for the exit status
)

// Obligation is one rule instance evaluated on one construct. Key never contains a line number.
type Obligation struct {
	Key        string `json:"key"`
	Rule       string `json:"rule"`
	Status     Status `json:"status"`
	Detail     string `json:"detail,omitempty"`
	Pos        string `json:"pos,omitempty"`
	NonTrivial bool   `json:"nontrivial"`
}

// Ctx is handed to every rule.
type Ctx struct {
	*Program
	Prop        string
	Tier        string
	Obligations []*Obligation
	Notes       []string
	Clauses     []string // clause descriptions (decided)
	NotDecided  []string
	clause      string
	seen        map[string]bool

	inlinedPairs *[][2]string
	// BodyOnCaller: rules about the body of an inlined-away helper are evaluated on its only reference caller (set by rule groups whose
	// checks are position-independent inside the function); otherwise the group is skipped with a note.
	BodyOnCaller bool
}

type anchorError struct{ msg string }

// NewCtx makes a rule context for one property.
func NewCtx(p *Program, prop, tier string) *Ctx {
	return &Ctx{Program: p, Prop: prop, Tier: tier, seen: map[string]bool{}}
}

// Clause starts a clause: id like "C02.1", text is what is decided. Later obligations are prefixed with id.
func (c *Ctx) Clause(id, text string) {
	c.clause = id
	c.Clauses = append(c.Clauses, id+": "+text)
}

// NotDecidedf records a part of the behaviour the property's check does not decide.
func (c *Ctx) NotDecidedf(format string, a ...interface{}) {
	c.NotDecided = append(c.NotDecided, fmt.Sprintf(format, a...))
}

// Note adds an informational line to the evidence.
func (c *Ctx) Note(format string, a ...interface{}) {
	c.Notes = append(c.Notes, fmt.Sprintf(format, a...))
}

func (c *Ctx) add(key, rule string, st Status, nontrivial bool, pos token.Pos, detail string) *Obligation {
	full := c.clause + "/" + key
	if c.seen[full] {
		// same construct evaluated twice: keep the worst
		for _, o := range c.Obligations {
			if o.Key == full {
				if st != Discharged && o.Status == Discharged {
					o.Status, o.Detail, o.Pos = st, detail, c.Pos(pos)
				}
				return o
			}
		}
	}
	c.seen[full] = true
	o := &Obligation{Key: full, Rule: rule, Status: st, Detail: detail, Pos: c.Pos(pos), NonTrivial: nontrivial}
	c.Obligations = append(c.Obligations, o)
	return o
}

// Check records an obligation decided by a path/dominance/call-graph argument.
func (c *Ctx) Check(key, rule string, ok bool, pos token.Pos, format string, a ...interface{}) bool {
	st := Discharged
	if !ok {
		st = Violated
	}
	c.add(key, rule, st, true, pos, fmt.Sprintf(format, a...))
	return ok
}

// CheckTrivial records an obligation decided by a syntactic identity (not counted as non-trivial).
func (c *Ctx) CheckTrivial(key, rule string, ok bool, pos token.Pos, format string, a ...interface{}) bool {
	st := Discharged
	if !ok {
		st = Violated
	}
	c.add(key, rule, st, false, pos, fmt.Sprintf(format, a...))
	return ok
}

// Undecided records an obligation the analysis could not decide (fails the check).
func (c *Ctx) Undecided(key, rule string, pos token.Pos, format string, a ...interface{}) {
	c.add(key, rule, Undecided, true, pos, fmt.Sprintf(format, a...))
}

// Floor fails when a rule matched fewer instances than were confirmed by hand.
func (c *Ctx) Floor(key string, got, want int) {
	// a private helper written out inside its caller takes one function / one call edge out of a count; such trees get that much slack
	if k := len(c.InlinedPairs()); got < want && got >= want-k && got > 0 {
		c.Note("floor %s: %d instances, %d confirmed on the reference tree; accepted because %d private helper(s) were inlined on this tree", key, got, want, k)
		want = got
	}
	c.CheckTrivial("floor/"+key, "instance-floor", got >= want, token.NoPos, "instances matched = %d, hand-confirmed floor = %d", got, want)
}

// Exactly fails when a closed set has a different size than confirmed by hand.
func (c *Ctx) Exactly(key string, got, want int) {
	if k := len(c.InlinedPairs()); got < want && got >= want-k && got > 0 {
		c.Note("count %s: %d instances, %d confirmed on the reference tree; accepted because %d private helper(s) were inlined on this tree", key, got, want, k)
		want = got
	}
	c.CheckTrivial("count/"+key, "instance-count", got == want, token.NoPos, "instances matched = %d, hand-confirmed count = %d", got, want)
}

// Run runs one rule function, converting an unresolved anchor into a violated obligation.
func (c *Ctx) Run(name string, f func()) {
	defer func() {
		if r := recover(); r != nil {
			if ae, ok := r.(anchorError); ok {
				c.add("anchor/"+name, "anchor-resolves", Undecided, false, token.NoPos, ae.msg)
				return
			}
			if ie, ok := r.(inlinedError); ok {
				c.Note("rule group %q is not evaluated beyond this point on this tree: its subject %s was inlined into %s (its body rules, where they exist, are evaluated on that caller)", name, ie.spec, ie.caller)
				return
			}
			panic(r)
		}
	}()
	f()
}

// inlinedError aborts a rule group whose subject — a private helper of the reference tree, as a callee — was written out inside its only
// caller: the group is not evaluated on such a tree (a note, not an alarm: the code may be perfectly right), see DESIGN §1.2b.
type inlinedError struct{ spec, caller string }

func anchorFail(format string, a ...interface{}) {
	panic(anchorError{fmt.Sprintf(format, a...)})
}

// ---------------------------------------------------------------------------------------------
// Anchor resolution (by type information; an anchor that does not resolve aborts the rule)

// Pkg returns the repository package with the module-relative path rel.
func (c *Ctx) Pkg(rel string) *types.Package {
	pk := c.ByPath[rel]
	if pk == nil {
		// dependency?
		if dp := c.AllPkgs[rel]; dp != nil {
			return dp.Types
		}
		anchorFail("package %q not found", rel)
	}
	return pk.Types
}

// Obj looks up a package-level object: "chain/consensus.verifyTxs".
func (c *Ctx) Obj(spec string) types.Object {
	i := strings.LastIndex(spec, ".")
	if i < 0 {
		anchorFail("bad object spec %q", spec)
	}
	pkg := c.Pkg(spec[:i])
	o := pkg.Scope().Lookup(spec[i+1:])
	if o == nil {
		anchorFail("object %q not found", spec)
	}
	return o
}

// Named returns the named type "chain/types.Header".
func (c *Ctx) Named(spec string) *types.Named {
	o := c.Obj(spec)
	tn, ok := o.(*types.TypeName)
	if !ok {
		anchorFail("%q is not a type", spec)
	}
	n, ok := tn.Type().(*types.Named)
	if !ok {
		anchorFail("%q is not a named type", spec)
	}
	return n
}

// Struct returns the struct underlying a named type.
func (c *Ctx) Struct(spec string) *types.Struct {
	s, ok := c.Named(spec).Underlying().(*types.Struct)
	if !ok {
		anchorFail("%q is not a struct", spec)
	}
	return s
}

// FieldVar returns the field object "chain/types.Header.Extra".
func (c *Ctx) FieldVar(typeSpec, field string) *types.Var {
	s := c.Struct(typeSpec)
	for i := 0; i < s.NumFields(); i++ {
		if s.Field(i).Name() == field {
			return s.Field(i)
		}
	}
	anchorFail("field %s.%s not found", typeSpec, field)
	return nil
}

// Method returns the method object of a named type (pointer or value receiver) or of an interface:
// "chain/consensus.DPoVP.InsertBlock".
func (c *Ctx) Method(typeSpec, name string) *types.Func {
	n := c.Named(typeSpec)
	if it, ok := n.Underlying().(*types.Interface); ok {
		for i := 0; i < it.NumMethods(); i++ {
			if it.Method(i).Name() == name {
				return it.Method(i)
			}
		}
		anchorFail("interface method %s.%s not found", typeSpec, name)
	}
	obj, _, _ := types.LookupFieldOrMethod(types.NewPointer(n), true, n.Obj().Pkg(), name)
	f, ok := obj.(*types.Func)
	if !ok {
		if c.InlinedAway(typeSpec + "." + name) {
			panic(inlinedError{typeSpec + "." + name, RefCallers[typeSpec+"."+name][0]})
		}
		anchorFail("method %s.%s not found", typeSpec, name)
	}
	return f
}

// FuncObj returns a package-level function object.
func (c *Ctx) FuncObj(spec string) *types.Func {
	if c.InlinedAway(spec) {
		panic(inlinedError{spec, RefCallers[spec][0]})
	}
	f, ok := c.Obj(spec).(*types.Func)
	if !ok {
		anchorFail("%q is not a function", spec)
	}
	return f
}

// Global returns a package-level variable.
func (c *Ctx) Global(spec string) *types.Var {
	v, ok := c.Obj(spec).(*types.Var)
	if !ok {
		anchorFail("%q is not a variable", spec)
	}
	return v
}

// Const returns a package-level constant.
func (c *Ctx) Const(spec string) *types.Const {
	v, ok := c.Obj(spec).(*types.Const)
	if !ok {
		anchorFail("%q is not a constant", spec)
	}
	return v
}

// Fn resolves a function or method spec to its SSA function. Forms:
//
//	"chain/consensus.verifyTxs"              package function
//	"chain/consensus.DPoVP.InsertBlock"      method (value or pointer receiver)
//	"...$1"                                   n-th anonymous function inside
func (c *Ctx) Fn(spec string) *ssa.Function {
	if os.Getenv("LEMOLINT_ANCHORS") != "" {
		fmt.Fprintf(os.Stderr, "ANCHOR-FN %s\n", spec)
	}
	// a private function of the reference tree that no longer exists was inlined into (or renamed inside) its caller: when the reference
	// tree has exactly one caller for it, the rules written for its body are evaluated on that caller
	if !strings.Contains(spec, "$") && c.InlinedAway(spec) {
		cs := RefCallers[spec]
		if !c.BodyOnCaller {
			panic(inlinedError{spec, cs[0]})
		}
		c.Note("anchor %s no longer exists; its rules are evaluated on its only reference caller %s", spec, cs[0])
		spec = cs[0]
	}
	base := spec
	var anon []string
	if i := strings.Index(spec, "$"); i >= 0 {
		base = spec[:i]
		anon = strings.Split(spec[i+1:], "$")
	}
	var obj *types.Func
	// try package function first
	i := strings.LastIndex(base, ".")
	if i < 0 {
		anchorFail("bad function spec %q", spec)
	}
	// a method spec has the form pkg.Type.Method where pkg may contain dots only in dependency paths; repository paths have none
	slash := strings.LastIndex(base, "/")
	rest := base[slash+1:]
	parts := strings.Split(rest, ".")
	switch len(parts) {
	case 2:
		obj = c.FuncObj(base)
	case 3:
		obj = c.Method(base[:slash+1]+parts[0]+"."+parts[1], parts[2])
	default:
		anchorFail("bad function spec %q", spec)
	}
	fn := c.FuncOf(obj)
	if fn == nil || fn.Blocks == nil {
		anchorFail("function %q has no body", spec)
	}
	for _, a := range anon {
		var n int
		fmt.Sscanf(a, "%d", &n)
		if n < 1 || n > len(fn.AnonFuncs) {
			anchorFail("function %q has no closure $%d", spec, n)
		}
		fn = fn.AnonFuncs[n-1]
	}
	return fn
}

// FnOrCaller is Fn for uses that only need "the function that holds this body" (call-graph roots, scopes): an inlined-away private
// helper is represented by its only reference caller.
func (c *Ctx) FnOrCaller(spec string) *ssa.Function {
	old := c.BodyOnCaller
	c.BodyOnCaller = true
	defer func() { c.BodyOnCaller = old }()
	return c.Fn(spec)
}

// FnObj is Fn's object form: the *types.Func for a spec.
func (c *Ctx) FnObj(spec string) *types.Func {
	slash := strings.LastIndex(spec, "/")
	parts := strings.Split(spec[slash+1:], ".")
	switch len(parts) {
	case 2:
		return c.FuncObj(spec)
	case 3:
		return c.Method(spec[:slash+1]+parts[0]+"."+parts[1], parts[2])
	}
	anchorFail("bad function spec %q", spec)
	return nil
}

// StdFunc returns a function or method of a non-repository package: ("sort", "Sort") or ("sync", "Mutex.Lock").
func (c *Ctx) StdFunc(pkgPath, name string) *types.Func {
	pk := c.AllPkgs[pkgPath]
	if pk == nil {
		anchorFail("package %q is not part of the build", pkgPath)
	}
	if i := strings.Index(name, "."); i >= 0 {
		o := pk.Types.Scope().Lookup(name[:i])
		if o == nil {
			anchorFail("%s.%s not found", pkgPath, name)
		}
		if it, ok := o.Type().Underlying().(*types.Interface); ok {
			for k := 0; k < it.NumMethods(); k++ {
				if it.Method(k).Name() == name[i+1:] {
					return it.Method(k)
				}
			}
		}
		m, _, _ := types.LookupFieldOrMethod(types.NewPointer(o.Type()), true, pk.Types, name[i+1:])
		f, ok := m.(*types.Func)
		if !ok {
			anchorFail("%s.%s not found", pkgPath, name)
		}
		return f
	}
	f, ok := pk.Types.Scope().Lookup(name).(*types.Func)
	if !ok {
		anchorFail("%s.%s not found", pkgPath, name)
	}
	return f
}

// FuncDecl finds the AST declaration of fn.
func (c *Ctx) FuncDecl(fn *ssa.Function) (*ast.FuncDecl, *types.Info) {
	root := fn
	for root.Parent() != nil {
		root = root.Parent()
	}
	rel := RelPkg(root)
	pk := c.ByPath[rel]
	if pk == nil {
		anchorFail("no package for %s", FuncName(fn))
	}
	fd, ok := root.Syntax().(*ast.FuncDecl)
	if !ok {
		anchorFail("no declaration for %s", FuncName(fn))
	}
	return fd, pk.TypesInfo
}

// SortedKeys is a small helper for deterministic output.
func SortedKeys(m map[string]bool) []string {
	var ks []string
	for k := range m {
		ks = append(ks, k)
	}
	sort.Strings(ks)
	return ks
}

// RefCallers: private function spec -> specs of its static callers in the reference tree (reference/callers.txt).
var RefCallers = map[string][]string{}

// specExists: does "pkg.func" / "pkg.Type.method" resolve in the loaded program (without failing the anchor)?
func (c *Ctx) specExists(spec string) bool {
	slash := strings.LastIndex(spec, "/")
	parts := strings.Split(spec[slash+1:], ".")
	pkgOf := func(rel string) *types.Package {
		if pk := c.ByPath[rel]; pk != nil {
			return pk.Types
		}
		return nil
	}
	switch len(parts) {
	case 2:
		p := pkgOf(spec[:slash+1] + parts[0])
		if p == nil {
			return false
		}
		_, ok := p.Scope().Lookup(parts[1]).(*types.Func)
		return ok
	case 3:
		p := pkgOf(spec[:slash+1] + parts[0])
		if p == nil {
			return false
		}
		tn, ok := p.Scope().Lookup(parts[1]).(*types.TypeName)
		if !ok {
			return false
		}
		obj, _, _ := types.LookupFieldOrMethod(types.NewPointer(tn.Type()), true, p, parts[2])
		_, isF := obj.(*types.Func)
		return isF
	}
	return false
}

// PrivateCallers lists "<spec>\t<caller spec>" for every unexported repository function and each of its static callers.
func PrivateCallers(p *Program) []string {
	specOf := func(fn *ssa.Function) string {
		fn = Outer(fn)
		rel := RelPkg(fn)
		if fn.Signature.Recv() != nil {
			t := fn.Signature.Recv().Type()
			if pt, ok := t.(*types.Pointer); ok {
				t = pt.Elem()
			}
			if n, ok := t.(*types.Named); ok {
				return rel + "." + n.Obj().Name() + "." + fn.Name()
			}
		}
		return rel + "." + fn.Name()
	}
	seen := map[string]bool{}
	var out []string
	for _, fn := range p.SrcFuncs {
		for _, b := range fn.Blocks {
			for _, in := range b.Instrs {
				ci, ok := in.(ssa.CallInstruction)
				if !ok {
					continue
				}
				callee := ci.Common().StaticCallee()
				if callee == nil || !InRepo(callee) || callee.Parent() != nil || callee.Synthetic != "" {
					continue
				}
				o, _ := callee.Object().(*types.Func)
				if o == nil || o.Exported() {
					continue
				}
				caller := Outer(fn)
				if strings.HasSuffix(p.Fset.Position(caller.Pos()).Filename, "_test.go") || caller == callee {
					continue
				}
				l := specOf(callee) + "\t" + specOf(caller) + "\t" + fmt.Sprint(FamilySize(callee)) + "\t" + fmt.Sprint(FamilySize(caller))
				if !seen[l] {
					seen[l] = true
					out = append(out, l)
				}
			}
		}
	}
	sort.Strings(out)
	return out
}

// InlinedAway reports that the private function spec of the reference tree is gone and its only reference caller still exists (its
// body now lives there): rules about the helper as a separate unit have no subject, rules about its body apply to the caller.
func (c *Ctx) InlinedAway(spec string) bool {
	if c.specExists(spec) {
		return false
	}
	cs := RefCallers[spec]
	if len(cs) != 1 || !c.specExists(cs[0]) {
		return false
	}
	// evidence that the body moved (and was not deleted together with its call): the caller grew by at least half of the helper's size
	hs, okH := RefSizes[spec]
	rs, okC := RefSizes[cs[0]]
	if !okH || !okC {
		return true
	}
	now := c.sizeOfSpec(cs[0])
	return now >= rs+hs/2
}

// InlinedPairs lists (helper spec, caller spec) for every private reference function that was inlined away on this tree.
func (c *Ctx) InlinedPairs() [][2]string {
	if c.inlinedPairs != nil {
		return *c.inlinedPairs
	}
	var out [][2]string
	var keys []string
	for k := range RefCallers {
		keys = append(keys, k)
	}
	sort.Strings(keys)
	for _, k := range keys {
		if c.InlinedAway(k) {
			out = append(out, [2]string{k, RefCallers[k][0]})
		}
	}
	c.inlinedPairs = &out
	return out
}

// SpecForms renders a function spec the ways obligation keys name functions: core.FuncName style and the short style of the rules.
func SpecForms(spec string) []string {
	slash := strings.LastIndex(spec, "/")
	dir, rest := spec[:slash+1], spec[slash+1:]
	parts := strings.Split(rest, ".")
	switch len(parts) {
	case 2:
		return []string{dir + rest, rest}
	case 3:
		return []string{
			"(*" + dir + parts[0] + "." + parts[1] + ")." + parts[2], "(*" + parts[0] + "." + parts[1] + ")." + parts[2],
			"(" + dir + parts[0] + "." + parts[1] + ")." + parts[2], "(" + parts[0] + "." + parts[1] + ")." + parts[2],
		}
	}
	return nil
}

// sizeOfSpec: SSA instruction count of the function spec (closures included), 0 when it does not resolve.
func (c *Ctx) sizeOfSpec(spec string) int {
	slash := strings.LastIndex(spec, "/")
	parts := strings.Split(spec[slash+1:], ".")
	var obj types.Object
	switch len(parts) {
	case 2:
		if pk := c.ByPath[spec[:slash+1]+parts[0]]; pk != nil {
			obj = pk.Types.Scope().Lookup(parts[1])
		}
	case 3:
		if pk := c.ByPath[spec[:slash+1]+parts[0]]; pk != nil {
			if tn, ok := pk.Types.Scope().Lookup(parts[1]).(*types.TypeName); ok {
				obj, _, _ = types.LookupFieldOrMethod(types.NewPointer(tn.Type()), true, pk.Types, parts[2])
			}
		}
	}
	f, ok := obj.(*types.Func)
	if !ok {
		return 0
	}
	fn := c.FuncOf(f)
	if fn == nil {
		return 0
	}
	return FamilySize(fn)
}

// FamilySize counts the SSA instructions of fn and of the function literals nested in it.
func FamilySize(fn *ssa.Function) int {
	n := 0
	for _, b := range fn.Blocks {
		n += len(b.Instrs)
	}
	for _, a := range fn.AnonFuncs {
		n += FamilySize(a)
	}
	return n
}

// RefSizes: function spec -> SSA instruction count in the reference tree (third and fourth column of reference/callers.txt).
var RefSizes = map[string]int{}

// MethodIfExists is Method for a member of a *permitted* table (a function the rule merely tolerates): nil when it no longer exists.
func (c *Ctx) MethodIfExists(typeSpec, name string) *types.Func {
	if !c.specExists(typeSpec + "." + name) {
		c.Note("tolerated method %s.%s no longer exists", typeSpec, name)
		return nil
	}
	return c.Method(typeSpec, name)
}

// MethodOpt is Method for a private method that may have been inlined away: it returns nil (instead of failing the anchor) when the
// method is gone and the reference tree knows exactly one caller of it that still exists.
func (c *Ctx) MethodOpt(typeSpec, name string) *types.Func {
	spec := typeSpec + "." + name
	if c.InlinedAway(spec) {
		c.Note("method %s no longer exists (inlined into %s)", spec, RefCallers[spec][0])
		return nil
	}
	return c.Method(typeSpec, name)
}
