package core

import (
	"go/token"
	"go/types"

	"golang.org/x/tools/go/ssa"
)

// ---------------------------------------------------------------------------------------------
// forward value flow ("which sinks does the quantity produced here end up in?")
//
// The flow follows a quantity through arithmetic: binary operations, conversions, phis, local cells (Alloc), the math/big
// convention `z.Op(x, y)` (x and y flow into the object z points to and into the result, z flows into the result), into
// statically resolved repository callees (by a per-(callee, parameter) summary: which results carry the parameter) and out of
// the function that produced it (a tainted Return flows to the matching result of every static call site of that function
// inside `scope`). Struct fields, maps, channels, interface calls and function values are NOT followed; every place where the
// quantity is handed to one of those is listed in Leaks so that a rule can refuse to decide.

// FlowResult is what ForwardFlow found.
type FlowResult struct {
	Sinks []ssa.CallInstruction // distinct sink call sites reached (order of discovery)
	Leaks []ssa.Instruction     // stores into fields/elements and calls the flow could not follow
	Via   map[ssa.Value]bool    // every value that carries the quantity (for price / operand checks by the caller)
}

type flowState struct {
	p       *Program
	scope   map[*ssa.Function]bool
	isSink  func(ci ssa.CallInstruction, arg int) bool
	callers map[*ssa.Function][]ssa.CallInstruction
	res     *FlowResult
	sinkSet map[ssa.CallInstruction]bool
	leakSet map[ssa.Instruction]bool
	sums    map[sumKey]*sumVal
	upSeen  map[ssa.Value]bool
}

type sumKey struct {
	fn *ssa.Function
	k  int
}

type sumVal struct {
	results map[int]bool
	done    bool
}

// StaticReach returns the repository functions reachable from root through statically resolved calls (closures of a reached
// function are reached too).
func StaticReach(root *ssa.Function) map[*ssa.Function]bool {
	seen := map[*ssa.Function]bool{}
	var walk func(fn *ssa.Function)
	walk = func(fn *ssa.Function) {
		if fn == nil || seen[fn] || fn.Blocks == nil || !InRepo(fn) {
			return
		}
		seen[fn] = true
		for _, a := range fn.AnonFuncs {
			walk(a)
		}
		for _, ci := range AllCalls(fn) {
			walk(ci.Common().StaticCallee())
		}
	}
	walk(root)
	return seen
}

// staticCallers indexes the static call sites of every repository function.
func (p *Program) staticCallers() map[*ssa.Function][]ssa.CallInstruction {
	out := map[*ssa.Function][]ssa.CallInstruction{}
	for _, fn := range p.SrcFuncs {
		for _, ci := range AllCalls(fn) {
			if sc := ci.Common().StaticCallee(); sc != nil {
				out[sc] = append(out[sc], ci)
			}
		}
	}
	return out
}

// BigIntMethod returns the name of the (*math/big.Int) method a call statically resolves to ("" otherwise).
func BigIntMethod(ci ssa.CallInstruction) string {
	sc := ci.Common().StaticCallee()
	if sc == nil {
		return ""
	}
	o, ok := sc.Object().(*types.Func)
	if !ok || o.Pkg() == nil || o.Pkg().Path() != "math/big" {
		return ""
	}
	r := recvOf(o)
	if n, ok := r.(*types.Named); !ok || n.Obj().Name() != "Int" {
		return ""
	}
	return o.Name()
}

// bigReturnsReceiver: methods of *big.Int whose first result is the receiver z (the arithmetic/setter family).
func bigReturnsReceiver(ci ssa.CallInstruction) bool {
	if BigIntMethod(ci) == "" {
		return false
	}
	sig := ci.Common().Signature()
	if sig.Results().Len() == 0 {
		return false
	}
	pt, ok := sig.Results().At(0).Type().(*types.Pointer)
	if !ok {
		return false
	}
	n, ok := pt.Elem().(*types.Named)
	return ok && n.Obj().Name() == "Int" && n.Obj().Pkg() != nil && n.Obj().Pkg().Path() == "math/big"
}

// ForwardFlow follows src forward. scope limits the callers a returned quantity is propagated to (nil = every repository
// function). isSink says whether argument `arg` of a call is a sink.
func (p *Program) ForwardFlow(src ssa.Value, scope map[*ssa.Function]bool, isSink func(ci ssa.CallInstruction, arg int) bool) *FlowResult {
	st := &flowState{p: p, scope: scope, isSink: isSink, callers: p.staticCallers(), res: &FlowResult{Via: map[ssa.Value]bool{}},
		sinkSet: map[ssa.CallInstruction]bool{}, leakSet: map[ssa.Instruction]bool{}, sums: map[sumKey]*sumVal{}, upSeen: map[ssa.Value]bool{}}
	st.walk(src, st.upSeen, nil)
	return st.res
}

func (st *flowState) sink(ci ssa.CallInstruction) {
	if !st.sinkSet[ci] {
		st.sinkSet[ci] = true
		st.res.Sinks = append(st.res.Sinks, ci)
	}
}

func (st *flowState) leak(in ssa.Instruction) {
	if !st.leakSet[in] {
		st.leakSet[in] = true
		st.res.Leaks = append(st.res.Leaks, in)
	}
}

// walk propagates v. seen is the visited set of the current context; sum, when non-nil, collects the result indices a
// tainted Return carries (summary mode: do not leave the function upwards).
func (st *flowState) walk(v ssa.Value, seen map[ssa.Value]bool, sum *sumVal) {
	if v == nil || seen[v] {
		return
	}
	seen[v] = true
	st.res.Via[v] = true
	refs := v.Referrers()
	if refs == nil {
		return
	}
	for _, r := range *refs {
		switch r := r.(type) {
		case *ssa.BinOp:
			switch r.Op {
			case token.EQL, token.NEQ, token.LSS, token.LEQ, token.GTR, token.GEQ:
				// a comparison is not the quantity any more
			default:
				st.walk(r, seen, sum)
			}
		case *ssa.UnOp:
			if r.Op == token.SUB || r.Op == token.XOR {
				st.walk(r, seen, sum)
			}
			// a load through v (v is an address) is handled where the cell is stored to
		case *ssa.Convert:
			st.walk(r, seen, sum)
		case *ssa.ChangeType:
			st.walk(r, seen, sum)
		case *ssa.Phi:
			st.walk(r, seen, sum)
		case *ssa.MakeInterface, *ssa.ChangeInterface:
			// boxed for logging and the like: not followed, not a leak of the quantity into arithmetic
		case *ssa.Store:
			if r.Val != v {
				continue
			}
			if al, ok := r.Addr.(*ssa.Alloc); ok {
				for _, ld := range loadsOfCell(al) {
					st.walk(ld, seen, sum)
				}
			} else if isVarargSlot(r.Addr) {
				// element of a `...interface{}` argument array (logging)
			} else {
				st.leak(r)
			}
		case *ssa.Return:
			for j, x := range r.Results {
				if x != v {
					continue
				}
				if sum != nil {
					sum.results[j] = true
					continue
				}
				fn := r.Parent()
				for _, cs := range st.callers[fn] {
					if st.scope != nil && !st.scope[cs.Parent()] {
						continue
					}
					rv := ResultValues(cs)
					if j < len(rv) && rv[j] != nil {
						st.walk(rv[j], st.upSeen, nil)
					}
				}
			}
		case ssa.CallInstruction:
			cc := r.Common()
			for k, a := range cc.Args {
				if a != v {
					continue
				}
				if st.isSink(r, k) {
					st.sink(r)
					continue
				}
				if BigIntMethod(r) != "" {
					if bigReturnsReceiver(r) {
						if k > 0 {
							st.walk(cc.Args[0], seen, sum) // the object z points to now holds the quantity
						}
						if val := r.Value(); val != nil {
							st.walk(val, seen, sum)
						}
					}
					continue // Cmp, Sign, String, Uint64 ...: observers
				}
				callee := cc.StaticCallee()
				if callee != nil && callee.Blocks != nil && InRepo(callee) && k < len(callee.Params) {
					s := st.summary(callee, k)
					rv := ResultValues(r)
					for j := range s.results {
						if j < len(rv) && rv[j] != nil {
							st.walk(rv[j], seen, sum)
						}
					}
					continue
				}
				if callee != nil && !InRepo(callee) {
					continue // library observer (fmt, log15 ...)
				}
				if callee != nil && callee.Blocks == nil {
					continue
				}
				st.leak(r)
			}
		}
	}
}

func (st *flowState) summary(fn *ssa.Function, k int) *sumVal {
	key := sumKey{fn, k}
	if s := st.sums[key]; s != nil {
		return s // finished, or in progress (recursion: the partial result is used)
	}
	s := &sumVal{results: map[int]bool{}}
	st.sums[key] = s
	st.walk(fn.Params[k], map[ssa.Value]bool{}, s)
	s.done = true
	return s
}

// loadsOfCell returns every load of the local cell al (in its function and in closures that capture it by reference).
func loadsOfCell(al *ssa.Alloc) []ssa.Value {
	var out []ssa.Value
	var scan func(addr ssa.Value)
	scan = func(addr ssa.Value) {
		if addr.Referrers() == nil {
			return
		}
		for _, r := range *addr.Referrers() {
			switch r := r.(type) {
			case *ssa.UnOp:
				if r.Op == token.MUL && r.X == addr {
					out = append(out, r)
				}
			case *ssa.MakeClosure:
				for i, b := range r.Bindings {
					if b == addr {
						if fn, ok := r.Fn.(*ssa.Function); ok && i < len(fn.FreeVars) {
							scan(fn.FreeVars[i])
						}
					}
				}
			}
		}
	}
	scan(al)
	return out
}

// isVarargSlot: addr is an element of a local array that only backs a variadic `...interface{}` argument.
func isVarargSlot(addr ssa.Value) bool {
	ia, ok := addr.(*ssa.IndexAddr)
	if !ok {
		return false
	}
	al, ok := ia.X.(*ssa.Alloc)
	if !ok {
		return false
	}
	pt, ok := al.Type().Underlying().(*types.Pointer)
	if !ok {
		return false
	}
	arr, ok := pt.Elem().Underlying().(*types.Array)
	if !ok {
		return false
	}
	_, isIface := arr.Elem().Underlying().(*types.Interface)
	return isIface
}

// ---------------------------------------------------------------------------------------------
// edge guards: "an If that dominates the action and one of whose edges cannot reach it"

// EdgeGuard is an If dominating an action with exactly one successor from which the action is still reachable.
type EdgeGuard struct {
	If     *ssa.If
	OnTrue bool // the action is reachable only through the true edge
	Slice  map[ssa.Value]bool
}

// EdgeGuardsOf lists the guards of action: Ifs in dominating blocks where the other edge cannot reach the action without
// evaluating the If again. Unlike CondGuards it does not need the rejecting edge to end in an error return (it may panic,
// return a value, or skip a statement).
func EdgeGuardsOf(action ssa.Instruction) []EdgeGuard {
	var out []EdgeGuard
	ab := action.Block()
	for _, b := range action.Parent().Blocks {
		if b == ab || !b.Dominates(ab) || len(b.Instrs) == 0 || len(b.Succs) != 2 || b.Succs[0] == b.Succs[1] {
			continue
		}
		ifi, ok := b.Instrs[len(b.Instrs)-1].(*ssa.If)
		if !ok {
			continue
		}
		avoid := map[*ssa.BasicBlock]bool{b: true}
		r0 := reach([]*ssa.BasicBlock{b.Succs[0]}, avoid, nil)[ab]
		r1 := reach([]*ssa.BasicBlock{b.Succs[1]}, avoid, nil)[ab]
		if r0 == r1 {
			continue
		}
		out = append(out, EdgeGuard{If: ifi, OnTrue: r0, Slice: Slice(ifi.Cond)})
	}
	return out
}

// AlwaysFollowedBy: once a has executed, every path to a function exit executes b.
func AlwaysFollowedBy(a, b ssa.Instruction) bool {
	if a.Parent() != b.Parent() {
		return false
	}
	if a.Block() == b.Block() {
		return indexIn(a) < indexIn(b)
	}
	r := reach(a.Block().Succs, map[*ssa.BasicBlock]bool{b.Block(): true}, nil)
	for _, ret := range Returns(a.Parent()) {
		if r[ret.Block()] {
			return false
		}
	}
	// a panic exit is an exit that skips b as well, but it also discards the transaction; only normal exits count
	return ReachableAfter(a, b)
}

// FreshPerIteration: in the innermost loop around `use`, every path from the loop header to `use` executes `def` (so the
// value def produces belongs to the same iteration).
func FreshPerIteration(def, use ssa.Instruction) bool {
	if def.Parent() != use.Parent() {
		return false
	}
	body, h := LoopOf(use.Block())
	if body == nil || !body[def.Block()] {
		return false
	}
	if def.Block() == use.Block() {
		return indexIn(def) < indexIn(use)
	}
	if def.Block() == h {
		return true
	}
	avoid := map[*ssa.BasicBlock]bool{def.Block(): true}
	for _, b := range use.Parent().Blocks {
		if !body[b] {
			avoid[b] = true
		}
	}
	var starts []*ssa.BasicBlock
	for _, s := range h.Succs {
		starts = append(starts, s)
	}
	if use.Block() == h {
		return false
	}
	return !reach(starts, avoid, nil)[use.Block()]
}
