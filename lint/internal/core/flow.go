package core

import (
	"fmt"
	"go/constant"
	"go/token"
	"go/types"
	"sort"
	"strings"
	"sync"

	"golang.org/x/tools/go/ssa"
)

// ---------------------------------------------------------------------------------------------
// call sites

// SameFamily reports whether a call whose static target / interface method is `site` may be a call of `target`:
// identical objects, or one is an interface method and the other a concrete method of a type implementing that interface.
func SameFamily(site, target *types.Func) bool {
	if site == nil || target == nil {
		return false
	}
	site, target = site.Origin(), target.Origin()
	if site == target {
		return true
	}
	if site.Name() != target.Name() {
		return false
	}
	sr, tr := recvOf(site), recvOf(target)
	if sr == nil || tr == nil {
		return false
	}
	si, sIsI := sr.Underlying().(*types.Interface)
	ti, tIsI := tr.Underlying().(*types.Interface)
	switch {
	case sIsI && !tIsI:
		return types.Implements(tr, si) || types.Implements(types.NewPointer(tr), si)
	case tIsI && !sIsI:
		return types.Implements(sr, ti) || types.Implements(types.NewPointer(sr), ti)
	case sIsI && tIsI:
		// two interfaces declaring the same method: related if one embeds / is a subset of the other
		return types.Implements(sr, ti) || types.Implements(tr, si)
	}
	return false
}

func recvOf(f *types.Func) types.Type {
	sig, ok := f.Type().(*types.Signature)
	if !ok || sig.Recv() == nil {
		return nil
	}
	t := sig.Recv().Type()
	if p, ok := t.(*types.Pointer); ok {
		t = p.Elem()
	}
	return t
}

// CalleeObj returns the *types.Func a call site names: the static callee's object or the interface method (nil for
// calls of function values).
func CalleeObj(ci ssa.CallInstruction) *types.Func {
	cc := ci.Common()
	if cc.IsInvoke() {
		return cc.Method
	}
	if sc := cc.StaticCallee(); sc != nil {
		if o, ok := sc.Object().(*types.Func); ok {
			return o
		}
		// bound method closure / thunk: resolve through the synthetic wrapper
		if sc.Synthetic != "" {
			for _, b := range sc.Blocks {
				for _, in := range b.Instrs {
					if c2, ok := in.(ssa.CallInstruction); ok {
						if o := CalleeObj(c2); o != nil {
							return o
						}
					}
				}
			}
		}
	}
	return nil
}

// StaticFn returns the SSA function a call statically resolves to (nil for interface / dynamic calls).
func StaticFn(ci ssa.CallInstruction) *ssa.Function {
	return ci.Common().StaticCallee()
}

// CallsIn returns the call instructions of fn (not its closures) that may call one of targets.
func CallsIn(fn *ssa.Function, targets ...*types.Func) []ssa.CallInstruction {
	var out []ssa.CallInstruction
	for _, b := range fn.Blocks {
		for _, in := range b.Instrs {
			ci, ok := in.(ssa.CallInstruction)
			if !ok {
				continue
			}
			o := CalleeObj(ci)
			for _, t := range targets {
				if SameFamily(o, t) {
					out = append(out, ci)
					break
				}
			}
		}
	}
	return out
}

// CallsInDeep is CallsIn over fn and all its (transitively nested) closures.
func CallsInDeep(fn *ssa.Function, targets ...*types.Func) []ssa.CallInstruction {
	out := CallsIn(fn, targets...)
	for _, a := range fn.AnonFuncs {
		out = append(out, CallsInDeep(a, targets...)...)
	}
	return out
}

// AllCalls lists every call instruction of fn.
func AllCalls(fn *ssa.Function) []ssa.CallInstruction {
	var out []ssa.CallInstruction
	for _, b := range fn.Blocks {
		for _, in := range b.Instrs {
			if ci, ok := in.(ssa.CallInstruction); ok {
				out = append(out, ci)
			}
		}
	}
	return out
}

// CallSite is one resolved call of a target somewhere in the repository.
type CallSite struct {
	Caller *ssa.Function
	Instr  ssa.CallInstruction
}

// CallSites scans every repository function for calls that may call one of targets.
func (p *Program) CallSites(targets ...*types.Func) []CallSite {
	var out []CallSite
	for _, fn := range p.SrcFuncs {
		for _, ci := range CallsIn(fn, targets...) {
			out = append(out, CallSite{fn, ci})
		}
	}
	return out
}

// Outer returns the outermost enclosing function of a closure.
func Outer(fn *ssa.Function) *ssa.Function {
	for fn.Parent() != nil {
		fn = fn.Parent()
	}
	return fn
}

// ---------------------------------------------------------------------------------------------
// positions inside a function

func indexIn(in ssa.Instruction) int {
	for i, x := range in.Block().Instrs {
		if x == in {
			return i
		}
	}
	return -1
}

// Dominates: a is executed before b on every path that reaches b (same function). Besides plain dominance this accepts the case where
// every path around a's block is infeasible because of a correlated nil test (see corrJoins): b is unreachable from the entry once a's block
// is removed.
func Dominates(a, b ssa.Instruction) bool {
	if a.Parent() != b.Parent() {
		return false
	}
	if a.Block() == b.Block() {
		return indexIn(a) < indexIn(b)
	}
	if a.Block().Dominates(b.Block()) {
		return true
	}
	fn := a.Parent()
	if len(corrJoins(fn)) == 0 || len(fn.Blocks) == 0 {
		return false
	}
	r := reach([]*ssa.BasicBlock{fn.Blocks[0]}, map[*ssa.BasicBlock]bool{a.Block(): true}, nil)
	if r[b.Block()] {
		return false
	}
	all := reach([]*ssa.BasicBlock{fn.Blocks[0]}, nil, nil)
	return all[b.Block()]
}

var corrCache sync.Map // *ssa.Function -> map[*ssa.BasicBlock][]int

// corrJoins finds the blocks J that end in `if p == nil` / `if p != nil` where p is a phi of J itself, and decides, per predecessor of J,
// which successor is the only feasible one when J is entered from that predecessor: the value the phi receives on that edge is the nil
// constant, or a value already known to be non-nil there (an error made by a constructor, or a value whose own `!= nil` test's non-nil branch
// dominates the predecessor). This is the shape an error takes when it travels through a result variable — written in a branch that tested
// it, read after the join — and it is what keeps the paths "failed, yet continues as if it had not" out of every reachability question.
// Entry i of the result is 0 or 1 (index of the feasible successor) or -1 (both).
func corrJoins(fn *ssa.Function) map[*ssa.BasicBlock][]int {
	if v, ok := corrCache.Load(fn); ok {
		return v.(map[*ssa.BasicBlock][]int)
	}
	out := map[*ssa.BasicBlock][]int{}
	// nil tests of the function: value -> (block whose entry implies non-nil, block whose entry implies nil)
	type impl struct {
		nonNil, isNil         []*ssa.BasicBlock
		edgeNonNil, edgeIsNil [][2]*ssa.BasicBlock // critical edges: the test's block jumps straight into a join
	}
	tests := map[ssa.Value]*impl{}
	for _, b := range fn.Blocks {
		if len(b.Instrs) == 0 {
			continue
		}
		ifi, ok := b.Instrs[len(b.Instrs)-1].(*ssa.If)
		if !ok {
			continue
		}
		bo, ok := ifi.Cond.(*ssa.BinOp)
		if !ok || (bo.Op != token.EQL && bo.Op != token.NEQ) {
			continue
		}
		var v ssa.Value
		if IsNilConst(bo.Y) {
			v = bo.X
		} else if IsNilConst(bo.X) {
			v = bo.Y
		}
		if v == nil || b.Succs[0] == b.Succs[1] {
			continue
		}
		nn, nl := b.Succs[0], b.Succs[1] // for NEQ: true edge = non-nil
		if bo.Op == token.EQL {
			nn, nl = nl, nn
		}
		if tests[v] == nil {
			tests[v] = &impl{}
		}
		if len(nn.Preds) == 1 {
			tests[v].nonNil = append(tests[v].nonNil, nn)
		} else {
			tests[v].edgeNonNil = append(tests[v].edgeNonNil, [2]*ssa.BasicBlock{b, nn})
		}
		if len(nl.Preds) == 1 {
			tests[v].isNil = append(tests[v].isNil, nl)
		} else {
			tests[v].edgeIsNil = append(tests[v].edgeIsNil, [2]*ssa.BasicBlock{b, nl})
		}
	}
	var joinOf *ssa.BasicBlock                           // the block whose incoming edge from `at` is being decided
	known := func(v ssa.Value, at *ssa.BasicBlock) int { // 1 non-nil, 0 nil, -1 unknown
		if IsNilConst(v) {
			return 0
		}
		if certainlyNonNil(v) {
			return 1
		}
		if t := tests[v]; t != nil && joinOf != nil {
			for _, e := range t.edgeNonNil {
				if e[0] == at && e[1] == joinOf {
					return 1
				}
			}
			for _, e := range t.edgeIsNil {
				if e[0] == at && e[1] == joinOf {
					return 0
				}
			}
		}
		if t := tests[v]; t != nil {
			for _, s := range t.nonNil {
				if s == at || s.Dominates(at) {
					return 1
				}
			}
			for _, s := range t.isNil {
				if s == at || s.Dominates(at) {
					return 0
				}
			}
		}
		return -1
	}
	for _, b := range fn.Blocks {
		if len(b.Instrs) == 0 || len(b.Preds) < 2 {
			continue
		}
		ifi, ok := b.Instrs[len(b.Instrs)-1].(*ssa.If)
		if !ok || b.Succs[0] == b.Succs[1] {
			continue
		}
		bo, ok := ifi.Cond.(*ssa.BinOp)
		if !ok || (bo.Op != token.EQL && bo.Op != token.NEQ) {
			continue
		}
		var v ssa.Value
		if IsNilConst(bo.Y) {
			v = bo.X
		} else if IsNilConst(bo.X) {
			v = bo.Y
		}
		phi, ok := v.(*ssa.Phi)
		if !ok || phi.Block() != b {
			continue
		}
		dec := make([]int, len(b.Preds))
		any := false
		for i := range b.Preds {
			dec[i] = -1
			if i >= len(phi.Edges) {
				continue
			}
			joinOf = b
			switch known(phi.Edges[i], b.Preds[i]) {
			case 1: // non-nil
				any = true
				if bo.Op == token.NEQ {
					dec[i] = 0
				} else {
					dec[i] = 1
				}
			case 0:
				any = true
				if bo.Op == token.NEQ {
					dec[i] = 1
				} else {
					dec[i] = 0
				}
			}
		}
		if any {
			out[b] = dec
		}
	}
	// a nil test of a value whose nil-ness is already decided at that block (an earlier test of the same value dominates it)
	dec := map[*ssa.BasicBlock]int{}
	for _, b := range fn.Blocks {
		if len(b.Instrs) == 0 || len(b.Succs) != 2 || b.Succs[0] == b.Succs[1] {
			continue
		}
		ifi, ok := b.Instrs[len(b.Instrs)-1].(*ssa.If)
		if !ok {
			continue
		}
		bo, ok := ifi.Cond.(*ssa.BinOp)
		if !ok || (bo.Op != token.EQL && bo.Op != token.NEQ) {
			continue
		}
		var v ssa.Value
		if IsNilConst(bo.Y) {
			v = bo.X
		} else if IsNilConst(bo.X) {
			v = bo.Y
		}
		if v == nil || IsNilConst(v) {
			continue
		}
		t := tests[v]
		if t == nil {
			continue
		}
		k := -1
		for _, s := range t.nonNil {
			if s != b.Succs[0] && s != b.Succs[1] && (s == b || s.Dominates(b)) {
				k = 1
			}
		}
		for _, s := range t.isNil {
			if s != b.Succs[0] && s != b.Succs[1] && (s == b || s.Dominates(b)) {
				k = 0
			}
		}
		if k < 0 {
			continue
		}
		nonNilEdge := 0
		if bo.Op == token.EQL {
			nonNilEdge = 1
		}
		if k == 1 {
			dec[b] = nonNilEdge
		} else {
			dec[b] = 1 - nonNilEdge
		}
	}
	decidedCache.Store(fn, dec)
	corrCache.Store(fn, out)
	return out
}

var decidedCache sync.Map // *ssa.Function -> map[*ssa.BasicBlock]int: nil tests decided by a dominating test of the same value

// reach computes the blocks reachable from the start blocks, never entering a block in `avoid` and never following a cut edge. A block
// with a correlated nil test (corrJoins) is left only through the successor that is feasible for the edge it was entered by.
func reach(starts []*ssa.BasicBlock, avoid map[*ssa.BasicBlock]bool, cut map[[2]*ssa.BasicBlock]bool) map[*ssa.BasicBlock]bool {
	seen := map[*ssa.BasicBlock]bool{}
	var stack []*ssa.BasicBlock
	var corr map[*ssa.BasicBlock][]int
	generic := map[*ssa.BasicBlock]bool{}
	if len(starts) > 0 && starts[0] != nil {
		corr = corrJoins(starts[0].Parent())
	}
	for _, s := range starts {
		if !avoid[s] && !seen[s] {
			seen[s] = true
			stack = append(stack, s)
		}
	}
	for len(stack) > 0 {
		b := stack[len(stack)-1]
		stack = stack[:len(stack)-1]
		only := constBranch(b)
		for si, s := range b.Succs {
			if only >= 0 && si != only {
				continue // `if nil != nil` and the like: the other successor is dead code
			}
			if cut[[2]*ssa.BasicBlock{b, s}] || avoid[s] {
				continue
			}
			if dec, isCorr := corr[s]; isCorr {
				// entered from b: which way out?
				way := -2
				for i, p := range s.Preds {
					if p == b && i < len(dec) {
						if way == -2 {
							way = dec[i]
						} else if way != dec[i] {
							way = -1
						}
					}
				}
				if way >= 0 {
					seen[s] = true
					t := s.Succs[way]
					if !cut[[2]*ssa.BasicBlock{s, t}] && !avoid[t] {
						if _, tc := corr[t]; tc {
							// a correlated block right behind another one: enter it generically
							if !seen[t] {
								seen[t] = true
								stack = append(stack, t)
							}
						} else if !seen[t] {
							seen[t] = true
							stack = append(stack, t)
						}
					}
					continue
				}
			}
			if seen[s] {
				// a correlated block that was entered by a decided edge before is now entered generically: expand it once
				if _, isCorr := corr[s]; isCorr && !generic[s] && !expanded(s, seen) {
					generic[s] = true
					stack = append(stack, s)
				}
				continue
			}
			if _, isCorr := corr[s]; isCorr {
				generic[s] = true
			}
			seen[s] = true
			stack = append(stack, s)
		}
	}
	return seen
}

var liveCache sync.Map // *ssa.Function -> map[*ssa.BasicBlock]bool (nil when every block is live)

// liveBlocks: the blocks reachable from the entry once constant branches are resolved; nil when the function has no constant branch.
func liveBlocks(fn *ssa.Function) map[*ssa.BasicBlock]bool {
	if v, ok := liveCache.Load(fn); ok {
		m, _ := v.(map[*ssa.BasicBlock]bool)
		return m
	}
	var out map[*ssa.BasicBlock]bool
	has := false
	for _, b := range fn.Blocks {
		if constBranch(b) >= 0 {
			has = true
		}
	}
	if has && len(fn.Blocks) > 0 {
		out = reach([]*ssa.BasicBlock{fn.Blocks[0]}, nil, nil)
	}
	liveCache.Store(fn, out)
	return out
}

// constBranch: b ends in an If whose condition is a constant (a boolean constant, or a comparison of two nil constants — what is left of
// `if err != nil` once err is known to be the nil literal); returns the index of the successor taken, -1 otherwise.
func constBranch(b *ssa.BasicBlock) int {
	if len(b.Instrs) == 0 || len(b.Succs) != 2 {
		return -1
	}
	if fn := b.Parent(); fn != nil {
		if _, ok := decidedCache.Load(fn); !ok {
			corrJoins(fn)
		}
		if v, ok := decidedCache.Load(fn); ok {
			if k, has := v.(map[*ssa.BasicBlock]int)[b]; has {
				return k
			}
		}
	}
	ifi, ok := b.Instrs[len(b.Instrs)-1].(*ssa.If)
	if !ok {
		return -1
	}
	switch c := ifi.Cond.(type) {
	case *ssa.Const:
		if bv, ok := BoolConst(c); ok {
			if bv {
				return 0
			}
			return 1
		}
	case *ssa.BinOp:
		if (c.Op == token.EQL || c.Op == token.NEQ) && IsNilConst(c.X) && IsNilConst(c.Y) {
			if c.Op == token.EQL {
				return 0
			}
			return 1
		}
	}
	return -1
}

// expanded: every successor of b has been seen (so pushing b again adds nothing).
func expanded(b *ssa.BasicBlock, seen map[*ssa.BasicBlock]bool) bool {
	for _, s := range b.Succs {
		if !seen[s] {
			return false
		}
	}
	return true
}

// CanReach: is there a CFG path from the end of block `from` ... precisely from the start of `from` to `to`, avoiding blocks.
func CanReach(from, to *ssa.BasicBlock, avoid ...*ssa.BasicBlock) bool {
	av := map[*ssa.BasicBlock]bool{}
	for _, a := range avoid {
		av[a] = true
	}
	return reach([]*ssa.BasicBlock{from}, av, nil)[to]
}

// ReachableAfter: can instruction b execute after instruction a (on some path)?
func ReachableAfter(a, b ssa.Instruction) bool {
	if a.Parent() != b.Parent() {
		return false
	}
	if a.Block() == b.Block() && indexIn(a) < indexIn(b) {
		return true
	}
	r := reach(a.Block().Succs, nil, nil)
	return r[b.Block()]
}

// Returns lists the Return instructions of fn.
func Returns(fn *ssa.Function) []*ssa.Return {
	var out []*ssa.Return
	live := liveBlocks(fn)
	for _, b := range fn.Blocks {
		if len(b.Instrs) == 0 {
			continue
		}
		if live != nil && !live[b] && b != fn.Recover {
			continue // dead code behind a constant branch
		}
		if r, ok := b.Instrs[len(b.Instrs)-1].(*ssa.Return); ok {
			out = append(out, r)
		}
	}
	return out
}

// ---------------------------------------------------------------------------------------------
// values

// IsNilConst reports whether v is the nil constant.
func IsNilConst(v ssa.Value) bool {
	c, ok := v.(*ssa.Const)
	return ok && c.Value == nil
}

// BoolConst returns the value of a boolean constant.
func BoolConst(v ssa.Value) (val, ok bool) {
	c, isC := v.(*ssa.Const)
	if !isC || c.Value == nil || c.Value.Kind() != constant.Bool {
		return false, false
	}
	return constant.BoolVal(c.Value), true
}

var errorType = types.Universe.Lookup("error").Type()

// IsErrorType reports whether t is the predeclared error interface.
func IsErrorType(t types.Type) bool { return types.Identical(t, errorType) }

func isBoolType(t types.Type) bool {
	b, ok := t.Underlying().(*types.Basic)
	return ok && b.Info()&types.IsBoolean != 0
}

// ResultValues returns the SSA values that carry the results of a call: for a single result the call itself, for a tuple
// the Extract instructions, indexed by result position (nil where unused).
func ResultValues(ci ssa.CallInstruction) []ssa.Value {
	v := ci.Value()
	if v == nil {
		return nil
	}
	sig := ci.Common().Signature()
	n := sig.Results().Len()
	out := make([]ssa.Value, n)
	if n == 1 {
		out[0] = v
		return out
	}
	if v.Referrers() != nil {
		for _, r := range *v.Referrers() {
			if e, ok := r.(*ssa.Extract); ok {
				out[e.Index] = e
			}
		}
	}
	return out
}

// ErrResult returns the value of the (last) error-typed result of a call, nil if none or unused.
func ErrResult(ci ssa.CallInstruction) ssa.Value {
	sig := ci.Common().Signature()
	rs := ResultValues(ci)
	for i := sig.Results().Len() - 1; i >= 0; i-- {
		if IsErrorType(sig.Results().At(i).Type()) {
			if rs == nil {
				return nil
			}
			return rs[i]
		}
	}
	return nil
}

// Derived returns the set of values that carry v unchanged: v itself, stores of v into a local cell followed by loads of that
// cell (closure-captured or address-taken variables), phis all of whose other edges are not considered (excluded),
// ChangeType/ChangeInterface/MakeInterface conversions.
func Derived(v ssa.Value) map[ssa.Value]bool {
	out := map[ssa.Value]bool{}
	var walk func(x ssa.Value)
	walk = func(x ssa.Value) {
		if x == nil || out[x] {
			return
		}
		out[x] = true
		refs := x.Referrers()
		if refs == nil {
			return
		}
		for _, r := range *refs {
			switch r := r.(type) {
			case *ssa.ChangeType:
				walk(r)
			case *ssa.ChangeInterface:
				walk(r)
			case *ssa.MakeInterface:
				walk(r)
			case *ssa.Store:
				if r.Val != x {
					continue
				}
				// a local cell: an Alloc, or (inside a closure) a variable captured from the enclosing function
				var al ssa.Value
				switch a := r.Addr.(type) {
				case *ssa.Alloc:
					al = a
				case *ssa.FreeVar:
					al = a
				default:
					continue
				}
				// loads of the cell that this store reaches before any other store in straight-line order
				for _, ld := range loadsReachedBy(r, al) {
					walk(ld)
				}
			}
		}
	}
	walk(v)
	return out
}

// loadsReachedBy finds the loads (in the same function) of cell al that observe store st: loads dominated by st with no other
// store to al on any path in between.
func loadsReachedBy(st *ssa.Store, al ssa.Value) []ssa.Value {
	var stores []*ssa.Store
	var loads []*ssa.UnOp
	if al.Referrers() == nil {
		return nil
	}
	for _, r := range *al.Referrers() {
		switch r := r.(type) {
		case *ssa.Store:
			if r.Addr == al && r.Parent() == st.Parent() {
				stores = append(stores, r)
			}
		case *ssa.UnOp:
			if r.Op == token.MUL && r.X == al && r.Parent() == st.Parent() {
				loads = append(loads, r)
			}
		}
	}
	var out []ssa.Value
	for _, ld := range loads {
		if !Dominates(st, ld) {
			continue
		}
		clobbered := false
		for _, o := range stores {
			if o == st {
				continue
			}
			// o lies between st and ld on some path?
			if ReachableAfter(st, o) && ReachableAfter(o, ld) {
				clobbered = true
				break
			}
		}
		if !clobbered {
			out = append(out, ld)
		}
	}
	return out
}

// Slice computes the backward slice of v inside its function: every value v is computed from (operands, transitively,
// through phis, calls, loads of local cells and field addresses), bounded in size. Local cells (Alloc) contribute the stores
// that can reach the use: a direct store is dropped when another direct store certainly lies between it and the use.
func Slice(v ssa.Value) map[ssa.Value]bool { return sliceOpt(v, true) }

// SliceShallow is Slice without looking into helpers: the result holds values of v's own function only.
func SliceShallow(v ssa.Value) map[ssa.Value]bool { return sliceOpt(v, false) }

func sliceOpt(v ssa.Value, deep bool) map[ssa.Value]bool {
	out := map[ssa.Value]bool{}
	inter := 0
	if !deep {
		inter = 99
	}
	var walk func(x ssa.Value, depth int)
	walkAlloc := func(al *ssa.Alloc, user ssa.Instruction, depth int) {
		key := [2]interface{}{al, user}
		_ = key
		out[al] = true
		var direct []*ssa.Store
		var indirect []*ssa.Store
		var collect func(addr ssa.Value, d int)
		collect = func(addr ssa.Value, d int) {
			if addr.Referrers() == nil || d > 3 {
				return
			}
			for _, r := range *addr.Referrers() {
				switch r := r.(type) {
				case *ssa.Store:
					if r.Addr == addr {
						if d == 0 {
							direct = append(direct, r)
						} else {
							indirect = append(indirect, r)
						}
					}
				case *ssa.IndexAddr:
					if r.X == addr {
						collect(r, d+1)
					}
				case *ssa.FieldAddr:
					if r.X == addr {
						collect(r, d+1)
					}
				}
			}
		}
		collect(al, 0)
		for _, st := range direct {
			if user == nil || st.Parent() != user.Parent() {
				walk(st.Val, depth+1)
				continue
			}
			if !ReachableAfter(st, user) {
				continue
			}
			killed := false
			for _, o := range direct {
				if o != st && o.Parent() == user.Parent() && Dominates(st, o) && Dominates(o, user) {
					killed = true
				}
			}
			if !killed {
				walk(st.Val, depth+1)
			}
		}
		for _, st := range indirect {
			if user == nil || st.Parent() != user.Parent() || ReachableAfter(st, user) {
				walk(st.Val, depth+1)
			}
		}
	}
	walk = func(x ssa.Value, depth int) {
		if x == nil || out[x] || depth > 40 || len(out) > 4000 {
			return
		}
		out[x] = true
		switch x := x.(type) {
		case *ssa.Alloc:
			walkAlloc(x, nil, depth)
		case ssa.Instruction:
			for _, op := range x.Operands(nil) {
				if *op == nil {
					continue
				}
				if al, ok := (*op).(*ssa.Alloc); ok {
					if !out[al] {
						walkAlloc(al, x, depth+1)
					}
					continue
				}
				walk(*op, depth+1)
			}
			// a small same-package helper that computes the value (an extracted accessor or a one-expression helper) is looked into: what
			// its results are computed from is part of what x is computed from
			if call, ok := x.(*ssa.Call); ok {
				if h := smallHelper(call, x.Parent()); h != nil && inter < 2 {
					inter++
					for _, r := range Returns(h) {
						if r.Block() == h.Recover {
							continue
						}
						for i := range r.Results {
							walk(RetVal(r, i), depth+1)
						}
					}
					inter--
				}
			}
		}
	}
	walk(v, 0)
	return out
}

// smallHelper: the call statically calls a function of the caller's own package that is small (at most 40 instructions, no calls through
// interfaces or function values excepted) and not recursive into the caller.
func smallHelper(call *ssa.Call, caller *ssa.Function) *ssa.Function {
	h := call.Call.StaticCallee()
	if h == nil || caller == nil || h.Blocks == nil || h == caller || h.Pkg == nil || h.Pkg != caller.Pkg || !InRepo(h) {
		return nil
	}
	n := 0
	for _, b := range h.Blocks {
		n += len(b.Instrs)
	}
	if n > 40 {
		return nil
	}
	return h
}

// SliceHasCall: does the slice contain a call that may call target?
func SliceHasCall(sl map[ssa.Value]bool, target *types.Func) bool {
	for v := range sl {
		if ci, ok := v.(ssa.CallInstruction); ok && SameFamily(CalleeObj(ci), target) {
			return true
		}
	}
	return false
}

// SliceCountCalls counts the distinct calls of target in the slice.
func SliceCountCalls(sl map[ssa.Value]bool, target *types.Func) int {
	n := 0
	for v := range sl {
		if ci, ok := v.(ssa.CallInstruction); ok && SameFamily(CalleeObj(ci), target) {
			n++
		}
	}
	return n
}

// SliceHasField: does the slice read field f (FieldAddr or Field)?
func SliceHasField(sl map[ssa.Value]bool, f *types.Var) bool {
	for v := range sl {
		if FieldOf(v) == f {
			return true
		}
	}
	return false
}

// SliceHasGlobal: does the slice read the package-level variable g?
func SliceHasGlobal(sl map[ssa.Value]bool, g *types.Var) bool {
	for v := range sl {
		if gl, ok := v.(*ssa.Global); ok && gl.Object() == g {
			return true
		}
	}
	return false
}

// SliceHasValue: does the slice contain value x?
func SliceHasValue(sl map[ssa.Value]bool, x ssa.Value) bool { return sl[x] }

// SliceHasIntConst: does the slice contain an integer constant equal to n?
func SliceHasIntConst(sl map[ssa.Value]bool, n int64) bool {
	for v := range sl {
		if c, ok := v.(*ssa.Const); ok && c.Value != nil && c.Value.Kind() == constant.Int {
			if i, exact := constant.Int64Val(c.Value); exact && i == n {
				return true
			}
		}
	}
	return false
}

// SliceHasOp: does the slice contain a binary operation with operator op?
func SliceHasOp(sl map[ssa.Value]bool, op token.Token) bool {
	for v := range sl {
		if b, ok := v.(*ssa.BinOp); ok && b.Op == op {
			return true
		}
	}
	return false
}

// FieldOf returns the struct field a FieldAddr/Field instruction selects (nil otherwise).
func FieldOf(v ssa.Value) *types.Var {
	switch x := v.(type) {
	case *ssa.FieldAddr:
		t := x.X.Type().Underlying().(*types.Pointer).Elem().Underlying().(*types.Struct)
		return t.Field(x.Field)
	case *ssa.Field:
		t := x.X.Type().Underlying().(*types.Struct)
		return t.Field(x.Field)
	}
	return nil
}

// ---------------------------------------------------------------------------------------------
// heeded guards

// FailWhen says which outcome of a guard is the rejecting one.
type FailWhen int

const (
	ErrNonNil FailWhen = iota // error result != nil rejects
	IsTrue                    // boolean result true rejects
	IsFalse                   // boolean result false rejects
	IsNil                     // pointer/interface result == nil rejects
)

// Test is an If instruction together with the successor taken when the guard rejects.
type Test struct {
	If    *ssa.If
	Fail  *ssa.BasicBlock
	OK    *ssa.BasicBlock
	Value ssa.Value // for nil tests of an error: the value compared with nil (v itself or something derived from it, e.g. a phi)
}

// TestsOf finds the If instructions that branch on value v under the given polarity.
func TestsOf(v ssa.Value, fw FailWhen) []Test {
	var out []Test
	for d := range Derived(v) {
		refs := d.Referrers()
		if refs == nil {
			continue
		}
		for _, r := range *refs {
			switch r := r.(type) {
			case *ssa.If:
				if r.Cond != d {
					continue
				}
				switch fw {
				case IsTrue:
					out = append(out, Test{If: r, Fail: r.Block().Succs[0], OK: r.Block().Succs[1]})
				case IsFalse:
					out = append(out, Test{If: r, Fail: r.Block().Succs[1], OK: r.Block().Succs[0]})
				}
			case *ssa.UnOp:
				if r.Op != token.NOT {
					continue
				}
				for _, t := range TestsOf(r, flip(fw)) {
					out = append(out, t)
				}
			case *ssa.BinOp:
				if r.Op != token.EQL && r.Op != token.NEQ {
					continue
				}
				other := r.Y
				if other == d {
					other = r.X
				}
				switch fw {
				case ErrNonNil, IsNil:
					if !IsNilConst(other) {
						continue
					}
					// r is true when (d == nil) for EQL
					nilWhenTrue := r.Op == token.EQL
					failWhenTrue := nilWhenTrue == (fw == IsNil)
					pol := IsTrue
					if !failWhenTrue {
						pol = IsFalse
					}
					sub := TestsOf(r, pol)
					for i := range sub {
						if sub[i].Value == nil {
							sub[i].Value = d
						}
					}
					out = append(out, sub...)
				case IsTrue, IsFalse:
					bv, ok := BoolConst(other)
					if !ok {
						continue
					}
					// r true when d == bv (EQL)
					trueMeansD := bv == (r.Op == token.EQL) // r true <=> d is true
					pol := fw
					if !trueMeansD {
						pol = flip(fw)
					}
					out = append(out, TestsOf(r, pol)...)
				}
			}
		}
	}
	return out
}

func flip(fw FailWhen) FailWhen {
	switch fw {
	case IsTrue:
		return IsFalse
	case IsFalse:
		return IsTrue
	}
	return fw
}

// GuardValue picks the value of a call a guard is tested on, according to the polarity.
func GuardValue(ci ssa.CallInstruction, fw FailWhen) ssa.Value {
	switch fw {
	case ErrNonNil:
		return ErrResult(ci)
	default:
		rs := ResultValues(ci)
		sig := ci.Common().Signature()
		for i := 0; i < sig.Results().Len(); i++ {
			t := sig.Results().At(i).Type()
			if fw == IsNil {
				if _, isB := t.Underlying().(*types.Basic); !isB && !IsErrorType(t) {
					return rs[i]
				}
			} else if isBoolType(t) {
				return rs[i]
			}
		}
	}
	return nil
}

// HeededBefore: guard call g is executed and tested on every path to `action`, and after a rejecting outcome `action`
// cannot be reached without executing g again. The returned string explains a failure.
func HeededBefore(g ssa.CallInstruction, fw FailWhen, action ssa.Instruction) (bool, string) {
	v := GuardValue(g, fw)
	if v == nil {
		return false, "the guard's result is not used"
	}
	return ValueHeededBefore(g, v, fw, action)
}

// ValueHeededBefore is HeededBefore for an arbitrary value computed at instruction at.
func ValueHeededBefore(at ssa.Instruction, v ssa.Value, fw FailWhen, action ssa.Instruction) (bool, string) {
	if at.Parent() != action.Parent() {
		return false, "guard and action are in different functions"
	}
	if !Dominates(at, action) {
		return false, "the guard does not dominate the action (a path reaches the action without it)"
	}
	tests := TestsOf(v, fw)
	if len(tests) == 0 {
		return false, "the guard's result is never tested"
	}
	for _, t := range tests {
		if t.If.Block() != action.Block() && !t.If.Block().Dominates(action.Block()) {
			continue
		}
		if t.If.Block() == action.Block() {
			continue // the If ends the block: the action precedes it
		}
		avoid := map[*ssa.BasicBlock]bool{}
		if at.Block() != t.Fail {
			avoid[at.Block()] = true
		}
		// the rejecting successor must not lead to the action (unless the guard is re-evaluated first)
		r := reach([]*ssa.BasicBlock{t.Fail}, avoid, nil)
		if t.Fail == t.OK || r[action.Block()] {
			continue
		}
		return true, ""
	}
	return false, "no test of the guard's result both dominates the action and keeps the rejecting edge away from it"
}

// ReturnClass classifies what a Return hands back in its error (or boolean) result position.
type ReturnClass int

const (
	RetSuccess ReturnClass = iota // nil error / true / no such result
	RetFailure                    // certainly a rejection
	RetUnknown                    // depends on a value the classification does not follow
)

// ClassifyReturn decides whether a Return is a success or a failure exit. failVals are values that are known non-nil on the
// paths considered (e.g. the guard's own error).
func ClassifyReturn(r *ssa.Return, failVals map[ssa.Value]bool, boolFail *bool) ReturnClass {
	fn := r.Parent()
	res := fn.Signature.Results()
	for i := res.Len() - 1; i >= 0; i-- {
		t := res.At(i).Type()
		if IsErrorType(t) {
			return classifyErrVal(r.Results[i], failVals, 0, r.Block())
		}
	}
	if boolFail != nil {
		for i := res.Len() - 1; i >= 0; i-- {
			if isBoolType(res.At(i).Type()) {
				if bv, ok := BoolConst(ResolveSpill(r.Results[i])); ok {
					if bv == *boolFail {
						return RetFailure
					}
					return RetSuccess
				}
				return RetUnknown
			}
		}
	}
	return RetSuccess
}

// KnownNonNilAt: block b is only reachable through the "v != nil" edge of a test of v.
func KnownNonNilAt(v ssa.Value, b *ssa.BasicBlock) bool {
	for _, t := range TestsOf(v, ErrNonNil) {
		if len(t.Fail.Preds) == 1 && t.Fail != t.OK && (t.Fail == b || t.Fail.Dominates(b)) {
			return true
		}
	}
	return false
}

// ResolveSpill looks through the result spill go/ssa emits in functions with defers (`*t = v; rundefers; r = *t; return r`):
// for a load of a local cell it returns the value stored last before it in the same block.
func ResolveSpill(v ssa.Value) ssa.Value {
	ld, ok := v.(*ssa.UnOp)
	if !ok || ld.Op != token.MUL {
		return v
	}
	al, ok := ld.X.(*ssa.Alloc)
	if !ok {
		return v
	}
	instrs := ld.Block().Instrs
	for i := indexIn(ld) - 1; i >= 0; i-- {
		if st, ok := instrs[i].(*ssa.Store); ok && st.Addr == al {
			return st.Val
		}
	}
	return v
}

// RetVal is the i-th result of a Return with result spills resolved.
func RetVal(r *ssa.Return, i int) ssa.Value { return ResolveSpill(r.Results[i]) }

func classifyErrVal(v ssa.Value, failVals map[ssa.Value]bool, depth int, at *ssa.BasicBlock) ReturnClass {
	if depth > 6 {
		return RetUnknown
	}
	v = ResolveSpill(v)
	if IsNilConst(v) {
		return RetSuccess
	}
	if failVals[v] {
		return RetFailure
	}
	if at != nil && KnownNonNilAt(v, at) {
		return RetFailure
	}
	// `err` captured by a function literal is a variable cell: look through the load to the store that provides the value
	if st := ReachingStore(v); st != nil {
		return classifyErrVal(st.Val, failVals, depth+1, at)
	}
	switch x := v.(type) {
	case *ssa.UnOp:
		if x.Op == token.MUL {
			if g, ok := x.X.(*ssa.Global); ok && IsErrorType(g.Type().(*types.Pointer).Elem()) {
				return RetFailure // a sentinel error variable
			}
		}
	case *ssa.MakeInterface:
		return RetFailure // a concrete error value
	case *ssa.Call:
		if sc := x.Call.StaticCallee(); sc != nil && sc.Pkg != nil {
			switch sc.Pkg.Pkg.Path() + "." + sc.Name() {
			case "errors.New", "fmt.Errorf":
				return RetFailure
			}
		}
	case *ssa.Phi:
		worst := RetFailure
		for _, e := range x.Edges {
			switch classifyErrVal(e, failVals, depth+1, nil) {
			case RetSuccess:
				return RetSuccess
			case RetUnknown:
				worst = RetUnknown
			}
		}
		return worst
	}
	return RetUnknown
}

// MustPassOK: every exit of fn that may be a success exit is unreachable once the accepting edge of the guard's test is
// removed, i.e. nobody gets a success out of fn without the guard having accepted. Linear (non-loop) guards only.
// boolFail, when non-nil, makes a boolean result with that value count as rejection (for predicates).
func MustPassOK(g ssa.Instruction, v ssa.Value, fw FailWhen, boolFail *bool) (bool, string) {
	fn := g.Parent()
	tests := TestsOf(v, fw)
	if len(tests) == 0 {
		return false, "the guard's result is never tested"
	}
	failVals := Derived(v)
	var why string
	for _, t := range tests {
		if !Dominates(g, t.If) {
			continue
		}
		cut := map[[2]*ssa.BasicBlock]bool{{t.If.Block(), t.OK}: true}
		if t.OK == t.Fail {
			continue
		}
		r := reach([]*ssa.BasicBlock{fn.Blocks[0]}, nil, cut)
		if fw == ErrNonNil {
			// sharper: a path either never meets the test, or leaves it by the rejecting edge knowing that the error is not nil — a later
			// test of the same error (also after it went through a result variable and a phi) then takes its non-nil branch
			r0 := reach([]*ssa.BasicBlock{fn.Blocks[0]}, map[*ssa.BasicBlock]bool{t.If.Block(): true}, nil)
			r2 := ReachKnowingNonNil(t.If.Block(), t.Fail, map[ssa.Value]bool{v: true}, nil)
			rr := map[*ssa.BasicBlock]bool{}
			for b := range r0 {
				if r[b] {
					rr[b] = true
				}
			}
			for b := range r2 {
				if r[b] {
					rr[b] = true
				}
			}
			r = rr
		}
		bad := ""
		for _, ret := range Returns(fn) {
			if !r[ret.Block()] {
				continue
			}
			var fv map[ssa.Value]bool
			if fw == ErrNonNil {
				fv = failVals
			}
			if ClassifyReturn(ret, fv, boolFail) != RetFailure {
				bad = "a possibly successful return is reachable without the guard accepting"
				break
			}
		}
		if bad == "" {
			return true, ""
		}
		why = bad
	}
	if why == "" {
		why = "no test of the guard's result is dominated by the guard"
	}
	return false, why
}

// CallHeeded applies MustPassOK to a guard call. An error that is handed on as the function's own error (`return g(...)`,
// `err := g(...); return err`) counts as heeded when no possibly-successful exit avoids the call.
func CallHeeded(g ssa.CallInstruction, fw FailWhen, boolFail *bool) (bool, string) {
	v := GuardValue(g, fw)
	if v == nil {
		return false, "the guard's result is not used"
	}
	ok, why := MustPassOK(g, v, fw, boolFail)
	if ok || fw != ErrNonNil {
		return ok, why
	}
	if forwardedAsError(g, v) {
		return true, ""
	}
	if joinedErrHeeded(g, v) {
		return true, ""
	}
	return ok, why
}

// joinedErrHeeded: the guard's error is tested only after it was joined with another error in one variable
// (`err = a(); if err == nil { err = g() }; if err != nil { return err }`). Decided by two fact-carrying explorations: (A) from the call,
// knowing the error is not nil, only failing returns are reached; (B) from the entry, without entering the call's block, no possibly
// successful return is reached (the other error's non-nil edge is the only way round, and it carries that fact into the joined test).
func joinedErrHeeded(g ssa.Instruction, v ssa.Value) bool {
	fn := g.Parent()
	if len(TestsOf(v, ErrNonNil)) > 0 {
		return false // has tests of its own: the ordinary analysis applies
	}
	toPhi := false
	if refs := v.Referrers(); refs != nil {
		for _, r := range *refs {
			if _, isPhi := r.(*ssa.Phi); isPhi {
				toPhi = true
			}
		}
	}
	if !toPhi {
		return false
	}
	failVals := Derived(v)
	bad, seen := 0, 0
	judge := func(ret *ssa.Return, f map[ssa.Value]bool) {
		if ret.Block() == fn.Recover {
			return
		}
		seen++
		res := fn.Signature.Results()
		for i := 0; i < res.Len() && i < len(ret.Results); i++ {
			if !IsErrorType(res.At(i).Type()) {
				continue
			}
			rv := ResolveSpill(ret.Results[i])
			if f[rv] || f[ret.Results[i]] || certainlyNonNil(rv) {
				return
			}
		}
		if ClassifyReturn(ret, failVals, nil) != RetFailure {
			bad++
		}
	}
	for _, s := range g.Block().Succs {
		reachKnowing(g.Block(), s, map[ssa.Value]bool{v: true}, nil, judge)
	}
	if bad > 0 || seen == 0 {
		return false
	}
	bad, seen = 0, 0
	if g.Block() == fn.Blocks[0] {
		return true
	}
	reachKnowing(nil, fn.Blocks[0], map[ssa.Value]bool{}, map[*ssa.BasicBlock]bool{g.Block(): true}, judge)
	return bad == 0
}

// forwardedAsError: the error value v of call g reaches only returns of g's function in the error position, and every
// possibly-successful return that does not carry v is unreachable when g's block is removed.
func forwardedAsError(g ssa.Instruction, v ssa.Value) bool {
	fn := g.Parent()
	d := Derived(v)
	carries := map[*ssa.Return]bool{}
	for x := range d {
		refs := x.Referrers()
		if refs == nil {
			continue
		}
		for _, r := range *refs {
			switch r := r.(type) {
			case *ssa.DebugRef, *ssa.Store, *ssa.ChangeInterface, *ssa.MakeInterface, *ssa.ChangeType:
			case *ssa.UnOp:
			case *ssa.Return:
				res := fn.Signature.Results()
				okPos := false
				for i := 0; i < res.Len(); i++ {
					if IsErrorType(res.At(i).Type()) && i < len(r.Results) && d[ResolveSpill(r.Results[i])] {
						okPos = true
					}
				}
				if !okPos {
					return false
				}
				carries[r] = true
			default:
				return false
			}
		}
	}
	if len(carries) == 0 {
		// through a result spill: the return loads the cell
		for _, r := range Returns(fn) {
			res := fn.Signature.Results()
			for i := 0; i < res.Len(); i++ {
				if IsErrorType(res.At(i).Type()) && i < len(r.Results) && d[ResolveSpill(r.Results[i])] {
					carries[r] = true
				}
			}
		}
	}
	if len(carries) == 0 {
		return false
	}
	r := reach([]*ssa.BasicBlock{fn.Blocks[0]}, map[*ssa.BasicBlock]bool{g.Block(): true}, nil)
	for _, ret := range Returns(fn) {
		if carries[ret] {
			continue
		}
		if r[ret.Block()] && ClassifyReturn(ret, nil, nil) != RetFailure {
			return false
		}
	}
	// the returns that carry v must be dominated by g (they are reached only after the call)
	for ret := range carries {
		if !Dominates(g, ret) {
			return false
		}
	}
	return true
}

// ---------------------------------------------------------------------------------------------
// condition guards: "an If that reads quantity Q and whose failing edge only leads to rejections"

// CondGuard describes an If whose one successor leads only to failure returns.
type CondGuard struct {
	If    *ssa.If
	Slice map[ssa.Value]bool
	Fail  *ssa.BasicBlock
	OK    *ssa.BasicBlock
}

// CondGuards lists the Ifs of fn one of whose edges leads only to rejecting returns while success exits need the other edge.
func CondGuards(fn *ssa.Function, boolFail *bool) []CondGuard {
	var out []CondGuard
	for _, b := range fn.Blocks {
		if len(b.Instrs) == 0 {
			continue
		}
		ifi, ok := b.Instrs[len(b.Instrs)-1].(*ssa.If)
		if !ok {
			continue
		}
		for k := 0; k < 2; k++ {
			fail, okb := b.Succs[k], b.Succs[1-k]
			if fail == okb {
				continue
			}
			// all returns reachable from the fail edge (without re-entering b) are failures
			r := reach([]*ssa.BasicBlock{fail}, map[*ssa.BasicBlock]bool{b: true}, nil)
			allFail, any := true, false
			for _, ret := range Returns(fn) {
				if !r[ret.Block()] {
					continue
				}
				any = true
				if ClassifyReturn(ret, nil, boolFail) != RetFailure {
					allFail = false
					break
				}
			}
			if !any || !allFail {
				continue
			}
			out = append(out, CondGuard{If: ifi, Slice: Slice(ifi.Cond), Fail: fail, OK: okb})
			break
		}
	}
	return out
}

// GuardsSuccess: with the accepting edge of cg removed no possibly successful return of fn is reachable from the entry.
func (cg CondGuard) GuardsSuccess(boolFail *bool) bool {
	fn := cg.If.Parent()
	cut := map[[2]*ssa.BasicBlock]bool{{cg.If.Block(), cg.OK}: true}
	r := reach([]*ssa.BasicBlock{fn.Blocks[0]}, nil, cut)
	for _, ret := range Returns(fn) {
		if r[ret.Block()] && ClassifyReturn(ret, nil, boolFail) != RetFailure {
			return false
		}
	}
	return true
}

// GuardsAction: the accepting edge of cg is the only way to `action`.
func (cg CondGuard) GuardsAction(action ssa.Instruction) bool {
	if !cg.If.Block().Dominates(action.Block()) || cg.If.Block() == action.Block() {
		return false
	}
	r := reach([]*ssa.BasicBlock{cg.Fail}, map[*ssa.BasicBlock]bool{cg.If.Block(): true}, nil)
	return !r[action.Block()]
}

// ---------------------------------------------------------------------------------------------
// natural loops

// LoopOf returns the blocks of the innermost natural loop containing b and its header (nil if b is in no loop).
func LoopOf(b *ssa.BasicBlock) (map[*ssa.BasicBlock]bool, *ssa.BasicBlock) {
	fn := b.Parent()
	var best map[*ssa.BasicBlock]bool
	var bestH *ssa.BasicBlock
	for _, u := range fn.Blocks {
		for _, h := range u.Succs {
			if !h.Dominates(u) {
				continue
			}
			// natural loop of back edge u->h
			body := map[*ssa.BasicBlock]bool{h: true}
			stack := []*ssa.BasicBlock{u}
			for len(stack) > 0 {
				x := stack[len(stack)-1]
				stack = stack[:len(stack)-1]
				if body[x] {
					continue
				}
				body[x] = true
				stack = append(stack, x.Preds...)
			}
			if body[b] && (best == nil || len(body) < len(best)) {
				best, bestH = body, h
			}
		}
	}
	return best, bestH
}

// EveryIterationPasses: in the innermost loop around instruction g every path from the loop header back to the header (one
// iteration) executes g's block.
func EveryIterationPasses(g ssa.Instruction) bool {
	body, h := LoopOf(g.Block())
	if body == nil {
		return false
	}
	if g.Block() == h {
		return true
	}
	var starts []*ssa.BasicBlock
	for _, s := range h.Succs {
		if body[s] {
			starts = append(starts, s)
		}
	}
	avoid := map[*ssa.BasicBlock]bool{g.Block(): true}
	for _, b := range g.Parent().Blocks {
		if !body[b] {
			avoid[b] = true
		}
	}
	r := reach(starts, avoid, nil)
	return !r[h]
}

// ReachKnowingNonNil explores the CFG from the edge pred→start under the assumption that the values in `nonNil` are not nil on
// this path: branches on `v == nil` / `v != nil` for such values (and for phis that receive such a value along the path taken) follow
// only the consistent successor. Blocks in `avoid` are not entered. Returns the set of blocks that can be reached.
func ReachKnowingNonNil(pred, start *ssa.BasicBlock, nonNil map[ssa.Value]bool, avoid map[*ssa.BasicBlock]bool) map[*ssa.BasicBlock]bool {
	return reachKnowing(pred, start, nonNil, avoid, nil)
}

// FailEdgeBadReturns explores from the rejecting edge of test t of the error value v, knowing v is not nil on that edge (the fact follows v
// through phis along the path taken, e.g. through a result variable), and returns the returns reached that may still be successful: their
// error result is neither known non-nil on the path nor classified as a failure. For non-error guards (fw other than ErrNonNil) the
// exploration is plain reachability. avoid: blocks not to enter (typically the guard's own block, for guards in loops).
func FailEdgeBadReturns(t Test, v ssa.Value, fw FailWhen, avoid map[*ssa.BasicBlock]bool, boolFail *bool) (bad []*ssa.Return, reached int) {
	fn := t.If.Parent()
	var failVals map[ssa.Value]bool
	facts := map[ssa.Value]bool{}
	if fw == ErrNonNil {
		failVals = Derived(v)
		facts[v] = true
	}
	seenRet := map[*ssa.Return]bool{}
	badSet := map[*ssa.Return]bool{}
	reachKnowing(t.If.Block(), t.Fail, facts, avoid, func(ret *ssa.Return, f map[ssa.Value]bool) {
		if ret.Block() == fn.Recover {
			return
		}
		seenRet[ret] = true
		if fw == ErrNonNil {
			res := fn.Signature.Results()
			for i := 0; i < res.Len() && i < len(ret.Results); i++ {
				if !IsErrorType(res.At(i).Type()) {
					continue
				}
				rv := ResolveSpill(ret.Results[i])
				if f[rv] || f[ret.Results[i]] || certainlyNonNil(rv) {
					return
				}
			}
		}
		if ClassifyReturn(ret, failVals, boolFail) != RetFailure {
			badSet[ret] = true
		}
	})
	for r := range badSet {
		bad = append(bad, r)
	}
	return bad, len(seenRet)
}

func reachKnowing(pred, start *ssa.BasicBlock, nonNil map[ssa.Value]bool, avoid map[*ssa.BasicBlock]bool, onReturn func(*ssa.Return, map[ssa.Value]bool)) map[*ssa.BasicBlock]bool {
	type state struct {
		b    *ssa.BasicBlock
		from *ssa.BasicBlock
		key  string
	}
	out := map[*ssa.BasicBlock]bool{}
	seen := map[string]bool{}
	var visit func(from, b *ssa.BasicBlock, facts map[ssa.Value]bool)
	visit = func(from, b *ssa.BasicBlock, facts map[ssa.Value]bool) {
		if avoid[b] {
			return
		}
		// phis
		if from != nil {
			idx := -1
			for i, p := range b.Preds {
				if p == from {
					idx = i
				}
			}
			var add []ssa.Value
			for _, in := range b.Instrs {
				phi, ok := in.(*ssa.Phi)
				if !ok {
					break
				}
				if idx >= 0 && idx < len(phi.Edges) {
					e := phi.Edges[idx]
					if facts[e] || certainlyNonNil(e) {
						add = append(add, phi)
					} else if facts[phi] {
						// the phi gets another value on this edge: forget the fact
						nf := map[ssa.Value]bool{}
						for k := range facts {
							if k != ssa.Value(phi) {
								nf[k] = true
							}
						}
						facts = nf
					}
				}
			}
			if len(add) > 0 {
				nf := map[ssa.Value]bool{}
				for k := range facts {
					nf[k] = true
				}
				for _, a := range add {
					nf[a] = true
				}
				facts = nf
			}
		}
		var ids []string
		for v := range facts {
			ids = append(ids, v.Name())
		}
		sort.Strings(ids)
		key := fmt.Sprintf("%d|%s", b.Index, strings.Join(ids, ","))
		if seen[key] {
			return
		}
		seen[key] = true
		out[b] = true
		if len(b.Instrs) > 0 && onReturn != nil {
			if ret, ok := b.Instrs[len(b.Instrs)-1].(*ssa.Return); ok {
				onReturn(ret, facts)
			}
		}
		if len(b.Instrs) > 0 {
			if ifi, ok := b.Instrs[len(b.Instrs)-1].(*ssa.If); ok {
				if bo, ok := ifi.Cond.(*ssa.BinOp); ok && (bo.Op == token.EQL || bo.Op == token.NEQ) {
					var v ssa.Value
					if IsNilConst(bo.Y) {
						v = bo.X
					} else if IsNilConst(bo.X) {
						v = bo.Y
					}
					if v != nil && (facts[v] || facts[ResolveSpill(v)]) {
						// v != nil is true
						if bo.Op == token.NEQ {
							visit(b, b.Succs[0], facts)
						} else {
							visit(b, b.Succs[1], facts)
						}
						return
					}
					if v != nil {
						// undecided here: the edge on which v is not nil teaches the fact (error and pointer values only)
						if _, isIface := v.Type().Underlying().(*types.Interface); isIface {
							nn, other := b.Succs[0], b.Succs[1]
							if bo.Op == token.EQL {
								nn, other = b.Succs[1], b.Succs[0]
							}
							nf := map[ssa.Value]bool{v: true}
							for k := range facts {
								nf[k] = true
							}
							visit(b, nn, nf)
							visit(b, other, facts)
							return
						}
					}
				}
			}
		}
		for _, s := range b.Succs {
			visit(b, s, facts)
		}
	}
	visit(pred, start, nonNil)
	return out
}

func certainlyNonNil(v ssa.Value) bool {
	switch x := v.(type) {
	case *ssa.UnOp:
		if x.Op == token.MUL {
			if g, ok := x.X.(*ssa.Global); ok && IsErrorType(g.Type().(*types.Pointer).Elem()) {
				return true
			}
		}
	case *ssa.MakeInterface:
		return true
	}
	return false
}
