package core

// shape.go — helpers for structural ("shape") rules: edge dominance, closure-call resolution, same-location loads,
// full index loops, builtin recognition, writers of a map-typed field. Used by C09 and C17.

import (
	"go/constant"
	"go/token"
	"go/types"

	"golang.org/x/tools/go/ssa"
)

// ---------------------------------------------------------------------------------------------
// edge dominance

// CondEdge is the CFG edge leaving an If: Taken==true is the edge followed when the condition holds.
type CondEdge struct {
	If    *ssa.If
	Taken bool
}

// Succ returns the successor block the edge leads to.
func (e CondEdge) Succ() *ssa.BasicBlock {
	if e.Taken {
		return e.If.Block().Succs[0]
	}
	return e.If.Block().Succs[1]
}

// OnlyVia: every path from the function entry to block `to` traverses the edge from→succ.
func OnlyVia(from, succ, to *ssa.BasicBlock) bool {
	fn := to.Parent()
	if len(fn.Blocks) == 0 || from == nil || succ == nil {
		return false
	}
	cut := map[[2]*ssa.BasicBlock]bool{{from, succ}: true}
	return !reach([]*ssa.BasicBlock{fn.Blocks[0]}, nil, cut)[to]
}

// DominatingEdges lists the conditional edges every path from the entry to block b must traverse. Because the tested values
// are SSA values whose definitions dominate the If, the last traversal of such an edge before b tests the very instances b sees.
func DominatingEdges(b *ssa.BasicBlock) []CondEdge {
	var out []CondEdge
	for _, x := range b.Parent().Blocks {
		if len(x.Instrs) == 0 {
			continue
		}
		ifi, ok := x.Instrs[len(x.Instrs)-1].(*ssa.If)
		if !ok || x.Succs[0] == x.Succs[1] {
			continue
		}
		for k := 0; k < 2; k++ {
			if OnlyVia(x, x.Succs[k], b) {
				out = append(out, CondEdge{ifi, k == 0})
			}
		}
	}
	return out
}

// BlockReachable reports whether b can be reached from the function entry at all.
func BlockReachable(b *ssa.BasicBlock) bool {
	fn := b.Parent()
	return reach([]*ssa.BasicBlock{fn.Blocks[0]}, nil, nil)[b]
}

// ReachAvoiding: can block `to` be reached from the start of `from` without entering any block of avoid?
func ReachAvoiding(from, to *ssa.BasicBlock, avoid map[*ssa.BasicBlock]bool) bool {
	return reach([]*ssa.BasicBlock{from}, avoid, nil)[to]
}

// ---------------------------------------------------------------------------------------------
// builtins

// BuiltinName returns the name of the builtin a call invokes ("" if it is not a builtin call).
func BuiltinName(ci ssa.CallInstruction) string {
	if b, ok := ci.Common().Value.(*ssa.Builtin); ok {
		return b.Name()
	}
	return ""
}

// LenArg: v is `len(x)` → x.
func LenArg(v ssa.Value) (ssa.Value, bool) {
	c, ok := v.(*ssa.Call)
	if !ok || BuiltinName(c) != "len" || len(c.Call.Args) != 1 {
		return nil, false
	}
	return c.Call.Args[0], true
}

// IntConstVal returns the value of an integer constant.
func IntConstVal(v ssa.Value) (int64, bool) {
	c, ok := v.(*ssa.Const)
	if !ok || c.Value == nil || c.Value.Kind() != constant.Int {
		return 0, false
	}
	return constant.Int64Val(c.Value)
}

// ---------------------------------------------------------------------------------------------
// same location

// SameLoc: a and b are the same SSA value, or loads of the same field path from the same base value (x.f.g read twice). The
// caller is responsible for excluding intervening stores where that matters.
func SameLoc(a, b ssa.Value) bool {
	if a == b {
		return true
	}
	if a == nil || b == nil {
		return false
	}
	if ca, ok := a.(*ssa.ChangeType); ok {
		return SameLoc(ca.X, b)
	}
	if cb, ok := b.(*ssa.ChangeType); ok {
		return SameLoc(a, cb.X)
	}
	la, ok1 := a.(*ssa.UnOp)
	lb, ok2 := b.(*ssa.UnOp)
	if ok1 && ok2 && la.Op == token.MUL && lb.Op == token.MUL {
		fa, ok1 := la.X.(*ssa.FieldAddr)
		fb, ok2 := lb.X.(*ssa.FieldAddr)
		if ok1 && ok2 && fa.Field == fb.Field && types.Identical(fa.X.Type(), fb.X.Type()) && SameLoc(fa.X, fb.X) {
			return true
		}
		// loads of the same local cell with no store in between are not tracked here: only identical cells with a single store
		aa, ok1 := la.X.(*ssa.Alloc)
		ab, ok2 := lb.X.(*ssa.Alloc)
		if ok1 && ok2 && aa == ab && len(storesTo(aa)) <= 1 {
			return true
		}
	}
	return false
}

func storesTo(addr ssa.Value) []*ssa.Store {
	var out []*ssa.Store
	if addr.Referrers() == nil {
		return nil
	}
	for _, r := range *addr.Referrers() {
		if st, ok := r.(*ssa.Store); ok && st.Addr == addr {
			out = append(out, st)
		}
	}
	return out
}

// FieldLoad: v is `*(&x.f)` → (x, f).
func FieldLoad(v ssa.Value) (ssa.Value, *types.Var, bool) {
	ld, ok := v.(*ssa.UnOp)
	if !ok || ld.Op != token.MUL {
		return nil, nil, false
	}
	fa, ok := ld.X.(*ssa.FieldAddr)
	if !ok {
		return nil, nil, false
	}
	return fa.X, FieldOf(fa), true
}

// ---------------------------------------------------------------------------------------------
// closures bound to local variables

// ClosureCallee resolves the function invoked by a call of a function value when that value is a closure bound exactly once:
// a MakeClosure, a load of a local cell holding one, or a load of a free variable whose cell in an enclosing function holds one.
func ClosureCallee(ci ssa.CallInstruction) *ssa.Function {
	cc := ci.Common()
	if cc.IsInvoke() {
		return nil
	}
	return resolveFuncValue(cc.Value, ci.Parent(), 0)
}

func resolveFuncValue(v ssa.Value, fn *ssa.Function, depth int) *ssa.Function {
	if depth > 6 || v == nil {
		return nil
	}
	switch x := v.(type) {
	case *ssa.Function:
		return x
	case *ssa.MakeClosure:
		f, _ := x.Fn.(*ssa.Function)
		return f
	case *ssa.ChangeType:
		return resolveFuncValue(x.X, fn, depth+1)
	case *ssa.UnOp:
		if x.Op != token.MUL {
			return nil
		}
		return resolveCell(x.X, fn, depth+1)
	}
	return nil
}

// resolveCell: the cell (Alloc or FreeVar) holds exactly one function value.
func resolveCell(cell ssa.Value, fn *ssa.Function, depth int) *ssa.Function {
	if depth > 6 {
		return nil
	}
	switch c := cell.(type) {
	case *ssa.Alloc:
		sts := cellStoresDeep(c, c.Parent())
		if len(sts) != 1 {
			return nil
		}
		return resolveFuncValue(sts[0].Val, sts[0].Parent(), depth+1)
	case *ssa.FreeVar:
		if fn == nil || fn.Parent() == nil {
			return nil
		}
		idx := -1
		for i, fv := range fn.FreeVars {
			if fv == c {
				idx = i
			}
		}
		if idx < 0 {
			return nil
		}
		parent := fn.Parent()
		for _, b := range parent.Blocks {
			for _, in := range b.Instrs {
				if mc, ok := in.(*ssa.MakeClosure); ok && mc.Fn == fn && idx < len(mc.Bindings) {
					return resolveCell(mc.Bindings[idx], parent, depth+1)
				}
			}
		}
	}
	return nil
}

// cellStoresDeep lists the stores to a local cell in its function and in every closure (transitively) that captures it.
func cellStoresDeep(cell ssa.Value, owner *ssa.Function) []*ssa.Store {
	out := storesTo(cell)
	if cell.Referrers() == nil {
		return out
	}
	for _, r := range *cell.Referrers() {
		mc, ok := r.(*ssa.MakeClosure)
		if !ok {
			continue
		}
		inner, _ := mc.Fn.(*ssa.Function)
		if inner == nil {
			continue
		}
		for i, b := range mc.Bindings {
			if b == cell && i < len(inner.FreeVars) {
				out = append(out, cellStoresDeep(inner.FreeVars[i], inner)...)
			}
		}
	}
	return out
}

// CellOfS9 returns the local cell (Alloc in an enclosing function) a value is loaded from, looking through free variables;
// nil when v is not such a load.
func CellOfS9(v ssa.Value, fn *ssa.Function) *ssa.Alloc {
	ld, ok := v.(*ssa.UnOp)
	if !ok || ld.Op != token.MUL {
		return nil
	}
	return cellAlloc(ld.X, fn, 0)
}

func cellAlloc(cell ssa.Value, fn *ssa.Function, depth int) *ssa.Alloc {
	if depth > 6 {
		return nil
	}
	switch c := cell.(type) {
	case *ssa.Alloc:
		return c
	case *ssa.FreeVar:
		if fn == nil || fn.Parent() == nil {
			return nil
		}
		for i, fv := range fn.FreeVars {
			if fv != c {
				continue
			}
			parent := fn.Parent()
			for _, b := range parent.Blocks {
				for _, in := range b.Instrs {
					if mc, ok := in.(*ssa.MakeClosure); ok && mc.Fn == fn && i < len(mc.Bindings) {
						return cellAlloc(mc.Bindings[i], parent, depth+1)
					}
				}
			}
		}
	}
	return nil
}

// FamilyFuncs returns fn and all closures nested in it.
func FamilyFuncs(fn *ssa.Function) []*ssa.Function {
	out := []*ssa.Function{fn}
	for _, a := range fn.AnonFuncs {
		out = append(out, FamilyFuncs(a)...)
	}
	return out
}

// ---------------------------------------------------------------------------------------------
// full index loops

// IndexLoop describes `for i := 0; i < N; i++` (or `for i := range s`) as seen in SSA.
type IndexLoop struct {
	Idx    ssa.Value // the value the body uses as index
	Bound  ssa.Value // N
	Header *ssa.BasicBlock
	Body   *ssa.BasicBlock // successor taken while i < N
	Exit   *ssa.BasicBlock
}

// FullIndexLoop recognises idx as the induction variable of a loop that starts at 0, steps by 1 and runs while idx < Bound,
// and whose only exit is the bound test (no break/return inside).
func FullIndexLoop(idx ssa.Value) (*IndexLoop, bool) {
	isOne := func(v ssa.Value) bool { n, ok := IntConstVal(v); return ok && n == 1 }
	var header *ssa.BasicBlock
	switch x := idx.(type) {
	case *ssa.Phi: // classic: i = phi[0, i+1]
		nInit, nStep := 0, 0
		for _, e := range x.Edges {
			if n, ok := IntConstVal(e); ok && n == 0 {
				nInit++
			} else if b, ok := e.(*ssa.BinOp); ok && b.Op == token.ADD && ((b.X == idx && isOne(b.Y)) || (b.Y == idx && isOne(b.X))) {
				nStep++
			} else {
				return nil, false
			}
		}
		if nInit != 1 || nStep < 1 {
			return nil, false
		}
		header = x.Block()
	case *ssa.BinOp: // range: p = phi[-1, i]; i = p+1
		if x.Op != token.ADD || !isOne(x.Y) {
			return nil, false
		}
		p, ok := x.X.(*ssa.Phi)
		if !ok || p.Block() != x.Block() {
			return nil, false
		}
		nInit, nStep := 0, 0
		for _, e := range p.Edges {
			if n, ok := IntConstVal(e); ok && n == -1 {
				nInit++
			} else if e == idx {
				nStep++
			} else {
				return nil, false
			}
		}
		if nInit != 1 || nStep < 1 {
			return nil, false
		}
		header = x.Block()
	default:
		return nil, false
	}
	if len(header.Instrs) == 0 {
		return nil, false
	}
	ifi, ok := header.Instrs[len(header.Instrs)-1].(*ssa.If)
	if !ok {
		return nil, false
	}
	cmp, ok := ifi.Cond.(*ssa.BinOp)
	if !ok {
		return nil, false
	}
	var bound ssa.Value
	switch {
	case cmp.Op == token.LSS && cmp.X == idx:
		bound = cmp.Y
	case cmp.Op == token.GTR && cmp.Y == idx:
		bound = cmp.X
	default:
		return nil, false
	}
	il := &IndexLoop{Idx: idx, Bound: bound, Header: header, Body: header.Succs[0], Exit: header.Succs[1]}
	// single exit: every block of the natural loop other than the header stays inside the loop
	body := naturalLoop(header)
	if body == nil {
		return nil, false
	}
	for b := range body {
		if b == header {
			continue
		}
		for _, s := range b.Succs {
			if !body[s] {
				return nil, false
			}
		}
	}
	return il, true
}

// NaturalLoop returns the union of the natural loops with the given header (a loop with `continue` has several back edges;
// LoopOf picks only the smallest of them).
func NaturalLoop(h *ssa.BasicBlock) map[*ssa.BasicBlock]bool { return naturalLoop(h) }

// EveryIterationOf: every path from the loop header h once around the loop executes instruction in.
func EveryIterationOf(h *ssa.BasicBlock, in ssa.Instruction) bool {
	body := naturalLoop(h)
	if body == nil || !body[in.Block()] {
		return false
	}
	if in.Block() == h {
		return true
	}
	avoid := map[*ssa.BasicBlock]bool{in.Block(): true}
	for _, b := range h.Parent().Blocks {
		if !body[b] {
			avoid[b] = true
		}
	}
	var starts []*ssa.BasicBlock
	for _, s := range h.Succs {
		if body[s] {
			starts = append(starts, s)
		}
	}
	return !reach(starts, avoid, nil)[h]
}

// naturalLoop returns the union of the natural loops with the given header.
func naturalLoop(h *ssa.BasicBlock) map[*ssa.BasicBlock]bool {
	var body map[*ssa.BasicBlock]bool
	for _, u := range h.Preds {
		if !h.Dominates(u) {
			continue
		}
		if body == nil {
			body = map[*ssa.BasicBlock]bool{h: true}
		}
		stack := []*ssa.BasicBlock{u}
		for len(stack) > 0 {
			x := stack[len(stack)-1]
			stack = stack[:len(stack)-1]
			if body[x] {
				continue
			}
			body[x] = true
			stack = append(stack, x.Preds...)
		}
	}
	return body
}

// InLoopEveryIteration: instruction in executes on every iteration of the index loop il.
func (il *IndexLoop) EveryIteration(in ssa.Instruction) bool {
	body := naturalLoop(il.Header)
	if body == nil || !body[in.Block()] {
		return false
	}
	if in.Block() == il.Header {
		return true
	}
	avoid := map[*ssa.BasicBlock]bool{in.Block(): true}
	for _, b := range il.Header.Parent().Blocks {
		if !body[b] {
			avoid[b] = true
		}
	}
	return !reach([]*ssa.BasicBlock{il.Body}, avoid, nil)[il.Header]
}

// ---------------------------------------------------------------------------------------------
// writers of a map-typed struct field

// MapFieldUse is one use of the map held in a struct field.
type MapFieldUse struct {
	Fn    *ssa.Function
	Instr ssa.Instruction
	Kind  string // "update", "delete", "assign" (store to the field itself), "escape" (the map value flows somewhere untracked)
}

// MapFieldWrites scans fns for writes of the map stored in struct field f: m[k]=v, delete(m,k), assignments of the field, and
// uses that let the map escape (passed to a call, stored elsewhere, returned), which make a who-writes rule undecidable.
func MapFieldWrites(fns []*ssa.Function, f *types.Var) []MapFieldUse {
	var out []MapFieldUse
	for _, fn := range fns {
		for _, b := range fn.Blocks {
			for _, in := range b.Instrs {
				fa, ok := in.(*ssa.FieldAddr)
				if !ok || FieldOf(fa) != f || fa.Referrers() == nil {
					continue
				}
				for _, r := range *fa.Referrers() {
					switch r := r.(type) {
					case *ssa.Store:
						if r.Addr == fa {
							out = append(out, MapFieldUse{fn, r, "assign"})
						} else {
							out = append(out, MapFieldUse{fn, r, "escape"})
						}
					case *ssa.UnOp:
						if r.Op != token.MUL {
							out = append(out, MapFieldUse{fn, r, "escape"})
							continue
						}
						out = append(out, mapValueUses(fn, r, 0)...)
					case *ssa.DebugRef:
					default:
						out = append(out, MapFieldUse{fn, r, "escape"})
					}
				}
			}
		}
	}
	return out
}

func mapValueUses(fn *ssa.Function, m ssa.Value, depth int) []MapFieldUse {
	var out []MapFieldUse
	if m.Referrers() == nil {
		return nil
	}
	for _, r := range *m.Referrers() {
		switch r := r.(type) {
		case *ssa.MapUpdate:
			if r.Map == m {
				out = append(out, MapFieldUse{fn, r, "update"})
			} else {
				out = append(out, MapFieldUse{fn, r, "escape"})
			}
		case *ssa.Lookup, *ssa.Range, *ssa.DebugRef:
		case *ssa.BinOp: // m == nil
		case ssa.CallInstruction:
			switch BuiltinName(r) {
			case "delete":
				out = append(out, MapFieldUse{fn, r, "delete"})
			case "len":
			default:
				// handed to a repository function: follow the parameter (bounded)
				g := r.Common().StaticCallee()
				if g == nil || g.Blocks == nil || !InRepo(g) || r.Common().IsInvoke() || depth > 3 {
					out = append(out, MapFieldUse{fn, r, "escape"})
					continue
				}
				for i, a := range r.Common().Args {
					if a == m && i < len(g.Params) {
						out = append(out, mapValueUses(g, g.Params[i], depth+1)...)
					}
				}
			}
		default:
			out = append(out, MapFieldUse{fn, r, "escape"})
		}
	}
	return out
}
