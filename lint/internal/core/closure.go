package core

import (
	"go/token"

	"golang.org/x/tools/go/ssa"
)

// ---------------------------------------------------------------------------------------------
// closures bound to local variables
//
// go/ssa keeps a local variable that is captured by a closure as a heap cell: `t = new T (x)` in the function that declares
// it, a FreeVar of type *T in every closure that captures it. `decode := func(...)` + a second closure that calls decode is
// therefore a *dynamic* call of a value loaded from such a cell. The helpers below resolve those calls and enumerate the
// uses of a closure, so that ordering rules can cross the closure boundary ("treat the body as the callee at its call site").

// Family returns fn's outermost function and every function literal nested in it (transitively), outermost first.
func Family(fn *ssa.Function) []*ssa.Function {
	root := Outer(fn)
	var out []*ssa.Function
	var walk func(f *ssa.Function)
	walk = func(f *ssa.Function) {
		out = append(out, f)
		for _, a := range f.AnonFuncs {
			walk(a)
		}
	}
	walk(root)
	return out
}

// CellOf resolves the address of a local variable cell to the Alloc that declares it: an Alloc is itself, a FreeVar is
// followed through the MakeClosure binding of the enclosing function(s). nil when v is not such a cell.
func CellOf(v ssa.Value) *ssa.Alloc {
	for depth := 0; depth < 8; depth++ {
		switch x := v.(type) {
		case *ssa.Alloc:
			return x
		case *ssa.FreeVar:
			fn := x.Parent()
			parent := fn.Parent()
			if parent == nil {
				return nil
			}
			idx := -1
			for i, fv := range fn.FreeVars {
				if fv == x {
					idx = i
				}
			}
			if idx < 0 {
				return nil
			}
			var next ssa.Value
			for _, b := range parent.Blocks {
				for _, in := range b.Instrs {
					if mc, ok := in.(*ssa.MakeClosure); ok && mc.Fn == fn && idx < len(mc.Bindings) {
						next = mc.Bindings[idx]
					}
				}
			}
			if next == nil {
				return nil
			}
			v = next
		default:
			return nil
		}
	}
	return nil
}

// cellAliases lists the values that denote cell al inside the closure family: al itself and the FreeVars bound to it.
func cellAliases(al *ssa.Alloc) []ssa.Value {
	out := []ssa.Value{al}
	for _, f := range Family(al.Parent()) {
		for _, fv := range f.FreeVars {
			if CellOf(fv) == al {
				out = append(out, fv)
			}
		}
	}
	return out
}

// CellStores returns every direct store to the variable cell al, in the declaring function and in the closures capturing it.
func CellStores(al *ssa.Alloc) []*ssa.Store {
	var out []*ssa.Store
	for _, a := range cellAliases(al) {
		if a.Referrers() == nil {
			continue
		}
		for _, r := range *a.Referrers() {
			if st, ok := r.(*ssa.Store); ok && st.Addr == a {
				out = append(out, st)
			}
		}
	}
	return out
}

// CellLoads returns every load of the variable cell al, in the declaring function and in the closures capturing it.
func CellLoads(al *ssa.Alloc) []*ssa.UnOp {
	var out []*ssa.UnOp
	for _, a := range cellAliases(al) {
		if a.Referrers() == nil {
			continue
		}
		for _, r := range *a.Referrers() {
			if ld, ok := r.(*ssa.UnOp); ok && ld.Op == token.MUL && ld.X == a {
				out = append(out, ld)
			}
		}
	}
	return out
}

// cellEscapes: the address of the cell is used for something other than direct loads, direct stores and closure capture.
func cellEscapes(al *ssa.Alloc) bool {
	for _, a := range cellAliases(al) {
		if a.Referrers() == nil {
			continue
		}
		for _, r := range *a.Referrers() {
			switch r := r.(type) {
			case *ssa.Store:
				if r.Addr != a {
					return true
				}
			case *ssa.UnOp:
				if r.Op != token.MUL {
					return true
				}
			case *ssa.MakeClosure, *ssa.DebugRef:
			default:
				return true
			}
		}
	}
	return false
}

// fnOfValue: the function a function-typed value certainly denotes (function literal with or without captured variables,
// or a local variable that is assigned exactly once, with such a literal).
func fnOfValue(v ssa.Value) *ssa.Function {
	switch x := v.(type) {
	case *ssa.Function:
		return x
	case *ssa.MakeClosure:
		f, _ := x.Fn.(*ssa.Function)
		return f
	case *ssa.UnOp:
		if x.Op != token.MUL {
			return nil
		}
		al := CellOf(x.X)
		if al == nil || cellEscapes(al) {
			return nil
		}
		st := CellStores(al)
		if len(st) != 1 {
			return nil
		}
		if _, again := st[0].Val.(*ssa.UnOp); again {
			return nil
		}
		return fnOfValue(st[0].Val)
	}
	return nil
}

// CalleeFn resolves the function a call instruction certainly executes: the static callee, or a function literal bound to a
// (possibly captured) local variable that is assigned exactly once. nil for interface and other dynamic calls.
func CalleeFn(ci ssa.CallInstruction) *ssa.Function {
	cc := ci.Common()
	if cc.IsInvoke() {
		return nil
	}
	if sc := cc.StaticCallee(); sc != nil {
		return sc
	}
	return fnOfValue(cc.Value)
}

// ClosureUses enumerates how the function literal fn is used inside its family: the call instructions (call, go, defer) that
// certainly execute it, the instructions that create it, and whether its value goes anywhere else (argument, field, return,
// multiply assigned variable) — then the calls are not the whole story and `escapes` is true.
func ClosureUses(fn *ssa.Function) (calls []ssa.CallInstruction, creation []ssa.Instruction, escapes bool) {
	if fn.Parent() == nil {
		return nil, nil, true
	}
	fam := Family(fn)
	var holders []ssa.Value
	for _, f := range fam {
		for _, b := range f.Blocks {
			for _, in := range b.Instrs {
				if mc, ok := in.(*ssa.MakeClosure); ok && mc.Fn == fn {
					holders = append(holders, mc)
					creation = append(creation, mc)
				}
			}
		}
	}
	type use struct {
		in ssa.Instruction
		v  ssa.Value
	}
	var uses []use
	if len(holders) == 0 {
		// no captured variables: the function itself is the value; find the instructions that mention it
		for _, f := range fam {
			for _, b := range f.Blocks {
				for _, in := range b.Instrs {
					for _, op := range in.Operands(nil) {
						if *op == ssa.Value(fn) {
							uses = append(uses, use{in, fn})
						}
					}
				}
			}
		}
	} else {
		for _, h := range holders {
			if h.Referrers() == nil {
				continue
			}
			for _, r := range *h.Referrers() {
				uses = append(uses, use{r, h})
			}
		}
	}
	for len(uses) > 0 {
		u := uses[0]
		uses = uses[1:]
		switch in := u.in.(type) {
		case *ssa.DebugRef:
		case ssa.CallInstruction:
			cc := in.Common()
			asArg := false
			for _, a := range cc.Args {
				if a == u.v {
					asArg = true
				}
			}
			if asArg || cc.Value != u.v {
				escapes = true
			} else {
				calls = append(calls, in)
			}
		case *ssa.Store:
			al := CellOf(in.Addr)
			if in.Val != u.v || al == nil || cellEscapes(al) || len(CellStores(al)) != 1 {
				escapes = true
				continue
			}
			if len(creation) == 0 {
				creation = append(creation, in)
			}
			for _, ld := range CellLoads(al) {
				if ld.Referrers() == nil {
					continue
				}
				for _, r := range *ld.Referrers() {
					uses = append(uses, use{r, ld})
				}
			}
		default:
			escapes = true
		}
	}
	return calls, creation, escapes
}

// ReachCut computes the blocks reachable from `from` (inclusive) when the listed CFG edges are removed.
func ReachCut(from *ssa.BasicBlock, cut map[[2]*ssa.BasicBlock]bool) map[*ssa.BasicBlock]bool {
	return reach([]*ssa.BasicBlock{from}, nil, cut)
}

// ReachingStore: for a load of a local variable cell (an Alloc, or a FreeVar inside a function literal) it returns the one
// store of the same function that certainly provides the loaded value: the store dominates the load, no other store to the
// cell can execute in between, and no call in between can run a function literal of the family that writes the cell. nil if
// there is no such store (or v is not such a load).
func ReachingStore(v ssa.Value) *ssa.Store {
	ld, ok := v.(*ssa.UnOp)
	if !ok || ld.Op != token.MUL {
		return nil
	}
	var cell ssa.Value
	switch a := ld.X.(type) {
	case *ssa.Alloc:
		cell = a
	case *ssa.FreeVar:
		cell = a
	default:
		return nil
	}
	if cell.Referrers() == nil {
		return nil
	}
	var found *ssa.Store
	for _, r := range *cell.Referrers() {
		st, ok := r.(*ssa.Store)
		if !ok || st.Addr != cell || st.Parent() != ld.Parent() {
			continue
		}
		for _, x := range loadsReachedBy(st, cell) {
			if x == ssa.Value(ld) {
				if found != nil {
					return nil
				}
				found = st
			}
		}
	}
	if found == nil {
		return nil
	}
	// writers of the cell in other functions of the family
	al := CellOf(cell)
	if al == nil {
		return nil
	}
	writers := map[*ssa.Function]bool{}
	for _, s := range CellStores(al) {
		if s.Parent() != ld.Parent() {
			writers[s.Parent()] = true
		}
	}
	if len(writers) == 0 {
		return found
	}
	for _, b := range ld.Parent().Blocks {
		for _, in := range b.Instrs {
			ci, isCall := in.(ssa.CallInstruction)
			if !isCall || !ReachableAfter(found, in) || !ReachableAfter(in, ld) {
				continue
			}
			if _, isDefer := in.(*ssa.Defer); isDefer {
				continue
			}
			cc := ci.Common()
			if cc.IsInvoke() {
				continue // an interface method of another type cannot name this function's local variable
			}
			callee := CalleeFn(ci)
			if callee == nil {
				return nil // unknown function value: may be one of the writers
			}
			// the callee, a function literal nested in it, or a function literal handed to it may write the cell
			cands := []*ssa.Function{callee}
			for _, a := range cc.Args {
				if f := fnOfValue(a); f != nil {
					cands = append(cands, f)
				}
			}
			for _, f := range cands {
				if f.Parent() == nil {
					continue // an ordinary function cannot name this function's local variable
				}
				var nested func(g *ssa.Function) bool
				nested = func(g *ssa.Function) bool {
					if writers[g] {
						return true
					}
					for _, a := range g.AnonFuncs {
						if nested(a) {
							return true
						}
					}
					return false
				}
				if nested(f) {
					return nil
				}
			}
		}
	}
	return found
}

// ReachCutAvoid: blocks reachable from `from` with the edges in cut removed and without entering the blocks in avoid.
func ReachCutAvoid(from *ssa.BasicBlock, cut map[[2]*ssa.BasicBlock]bool, avoid map[*ssa.BasicBlock]bool) map[*ssa.BasicBlock]bool {
	return reach([]*ssa.BasicBlock{from}, avoid, cut)
}
