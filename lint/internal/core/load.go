// Package core holds the loader, the obligation bookkeeping and the generic rule engines.
package core

import (
	"fmt"
	"go/token"
	"go/types"
	"os"
	"sort"
	"strings"
	"time"

	"golang.org/x/tools/go/callgraph"
	"golang.org/x/tools/go/callgraph/cha"
	"golang.org/x/tools/go/callgraph/vta"
	"golang.org/x/tools/go/packages"
	"golang.org/x/tools/go/ssa"
	"golang.org/x/tools/go/ssa/ssautil"
)

// ModPath is the module path of the analysed repository.
const ModPath = "github.com/LemoFoundationLtd/lemochain-core"

// Program is the loaded, type-checked and SSA-built repository.
type Program struct {
	Dir      string
	Fset     *token.FileSet
	Pkgs     []*packages.Package          // repository packages only
	ByPath   map[string]*packages.Package // keyed by path relative to the module ("chain/consensus")
	AllPkgs  map[string]*packages.Package // every package incl. dependencies, by full import path
	SSA      *ssa.Program
	SSAPkg   map[string]*ssa.Package // by relative path
	SrcFuncs []*ssa.Function         // every function with a body that belongs to a repository package (incl. closures)
	LoadSecs float64

	cg      *callgraph.Graph
	allFns  map[*ssa.Function]bool
	fnByObj map[*types.Func]*ssa.Function
}

// Load type-checks the module found at dir and builds SSA for it and its dependencies.
func Load(dir string, env []string) (*Program, error) { return LoadOverlay(dir, env, nil) }

// LoadOverlay is Load with file contents that replace what is on disk (the normalised sources).
func LoadOverlay(dir string, env []string, overlay map[string][]byte) (*Program, error) {
	start := time.Now()
	os.Unsetenv("GOWORK")
	cfg := &packages.Config{
		Mode:    packages.LoadAllSyntax,
		Dir:     dir,
		Tests:   false,
		Overlay: overlay,
		Env: append(append(os.Environ(), "GOFLAGS=-mod=mod", "GOPROXY=off", "GOSUMDB=off", "GOTOOLCHAIN=local", "GOWORK=off"),
			env...),
	}
	// TAGS=a,b in env selects build tags
	var keep []string
	for _, e := range cfg.Env {
		if strings.HasPrefix(e, "TAGS=") {
			cfg.BuildFlags = append(cfg.BuildFlags, "-tags="+strings.TrimPrefix(e, "TAGS="))
			continue
		}
		keep = append(keep, e)
	}
	cfg.Env = keep
	initial, err := packages.Load(cfg, "./...")
	if err != nil {
		return nil, fmt.Errorf("packages.Load: %v", err)
	}
	p := &Program{Dir: dir, ByPath: map[string]*packages.Package{}, AllPkgs: map[string]*packages.Package{}, SSAPkg: map[string]*ssa.Package{}, fnByObj: map[*types.Func]*ssa.Function{}}
	var errs []string
	packages.Visit(initial, nil, func(pk *packages.Package) {
		p.AllPkgs[pk.PkgPath] = pk
		if strings.HasPrefix(pk.PkgPath, ModPath) {
			for _, e := range pk.Errors {
				errs = append(errs, e.Error())
			}
		}
	})
	if len(errs) > 0 {
		return nil, fmt.Errorf("type-check errors in the repository (first of %d): %s", len(errs), errs[0])
	}
	for _, pk := range initial {
		if !strings.HasPrefix(pk.PkgPath, ModPath) {
			continue
		}
		p.Pkgs = append(p.Pkgs, pk)
		rel := strings.TrimPrefix(strings.TrimPrefix(pk.PkgPath, ModPath), "/")
		p.ByPath[rel] = pk
		if p.Fset == nil {
			p.Fset = pk.Fset
		}
	}
	if len(p.Pkgs) == 0 {
		return nil, fmt.Errorf("no repository packages loaded from %s", dir)
	}
	sort.Slice(p.Pkgs, func(i, j int) bool { return p.Pkgs[i].PkgPath < p.Pkgs[j].PkgPath })

	prog, _ := ssautil.AllPackages(initial, ssa.InstantiateGenerics)
	prog.Build()
	p.SSA = prog
	for rel, pk := range p.ByPath {
		sp := prog.Package(pk.Types)
		if sp == nil {
			return nil, fmt.Errorf("no SSA package for %s", rel)
		}
		p.SSAPkg[rel] = sp
	}
	p.allFns = ssautil.AllFunctions(prog)
	for fn := range p.allFns {
		if obj, ok := fn.Object().(*types.Func); ok && fn.Synthetic == "" {
			p.fnByObj[obj] = fn
		}
		if fn.Blocks == nil {
			continue
		}
		if pk := fn.Package(); pk != nil && strings.HasPrefix(pk.Pkg.Path(), ModPath) && (fn.Synthetic == "" || fn.Parent() != nil) {
			p.SrcFuncs = append(p.SrcFuncs, fn)
		} else if fn.Parent() != nil {
			root := fn
			for root.Parent() != nil {
				root = root.Parent()
			}
			if pk := root.Package(); pk != nil && strings.HasPrefix(pk.Pkg.Path(), ModPath) {
				p.SrcFuncs = append(p.SrcFuncs, fn)
			}
		}
	}
	sort.Slice(p.SrcFuncs, func(i, j int) bool {
		a, b := p.SrcFuncs[i], p.SrcFuncs[j]
		if a.Pos() != b.Pos() {
			return a.Pos() < b.Pos()
		}
		return a.String() < b.String()
	})
	p.LoadSecs = time.Since(start).Seconds()
	return p, nil
}

// CallGraph returns the VTA call graph (built on first use).
func (p *Program) CallGraph() *callgraph.Graph {
	if p.cg == nil {
		p.cg = vta.CallGraph(p.allFns, cha.CallGraph(p.SSA))
		p.cg.DeleteSyntheticNodes()
	}
	return p.cg
}

// AllFunctions is every function known to the SSA program (repository + dependencies).
func (p *Program) AllFunctions() map[*ssa.Function]bool { return p.allFns }

// FuncOf returns the SSA function declared by obj (nil if it has none, e.g. an interface method).
func (p *Program) FuncOf(obj *types.Func) *ssa.Function {
	if obj == nil {
		return nil
	}
	if f := p.fnByObj[obj]; f != nil {
		return f
	}
	return p.SSA.FuncValue(obj)
}

// InRepo reports whether fn (or its outermost enclosing function) belongs to a repository package.
func InRepo(fn *ssa.Function) bool {
	for fn.Parent() != nil {
		fn = fn.Parent()
	}
	if fn.Pkg != nil {
		return strings.HasPrefix(fn.Pkg.Pkg.Path(), ModPath)
	}
	if o := fn.Object(); o != nil && o.Pkg() != nil {
		return strings.HasPrefix(o.Pkg().Path(), ModPath)
	}
	return false
}

// RelPkg returns the module-relative package path of fn ("" if outside the repository).
func RelPkg(fn *ssa.Function) string {
	for fn.Parent() != nil {
		fn = fn.Parent()
	}
	var path string
	if fn.Pkg != nil {
		path = fn.Pkg.Pkg.Path()
	} else if o := fn.Object(); o != nil && o.Pkg() != nil {
		path = o.Pkg().Path()
	}
	if !strings.HasPrefix(path, ModPath) {
		return ""
	}
	return strings.TrimPrefix(strings.TrimPrefix(path, ModPath), "/")
}

// Pos renders a position relative to the repository directory.
func (p *Program) Pos(pos token.Pos) string {
	if !pos.IsValid() {
		return "-"
	}
	ps := p.Fset.Position(pos)
	f := strings.TrimPrefix(ps.Filename, p.Dir+"/")
	return fmt.Sprintf("%s:%d", f, ps.Line)
}

// FuncName is a stable, position-free name for a function: "chain/consensus.(*DPoVP).InsertBlock", closures get "$n".
func FuncName(fn *ssa.Function) string {
	if fn == nil {
		return "<nil>"
	}
	s := fn.String()
	s = strings.ReplaceAll(s, ModPath+"/", "")
	return s
}
