package core

import (
	"go/constant"
	"go/token"
	"go/types"

	"golang.org/x/tools/go/ssa"
)

// ---------------------------------------------------------------------------------------------
// control dependence, path cuts, structural equality of conditions (added for C04/C06)

// Ctrl is one branch an instruction is control dependent on: the instruction's block can be reached from successor Taken
// of the If (0 = condition true, 1 = condition false) without coming back through the If, and cannot from the other one.
type Ctrl struct {
	If    *ssa.If
	Taken int
}

// Controllers lists the branches that decide whether instruction in executes (in the current iteration, for code inside
// loops): every If of the function exactly one of whose edges leads to in's block without re-entering the If's own block.
func Controllers(in ssa.Instruction) []Ctrl {
	var out []Ctrl
	target := in.Block()
	loops := naturalLoops(in.Parent())
	for _, b := range in.Parent().Blocks {
		if len(b.Instrs) == 0 || b == target {
			continue
		}
		ifi, ok := b.Instrs[len(b.Instrs)-1].(*ssa.If)
		if !ok || b.Succs[0] == b.Succs[1] {
			continue
		}
		avoid := map[*ssa.BasicBlock]bool{b: true}
		// only paths inside the current iteration count: do not walk around a loop that holds both the branch and the instruction
		for h, body := range loops {
			if h != b && body[b] && body[target] {
				avoid[h] = true
			}
		}
		if avoid[target] {
			continue
		}
		r0 := reach([]*ssa.BasicBlock{b.Succs[0]}, avoid, nil)[target]
		r1 := reach([]*ssa.BasicBlock{b.Succs[1]}, avoid, nil)[target]
		switch {
		case r0 && !r1:
			out = append(out, Ctrl{ifi, 0})
		case r1 && !r0:
			out = append(out, Ctrl{ifi, 1})
		}
	}
	return out
}

// IsLoopHeaderIf reports whether the If terminates the header block of a natural loop (a `for`/`range` condition).
func IsLoopHeaderIf(ifi *ssa.If) bool {
	_, h := LoopOf(ifi.Block())
	return h == ifi.Block()
}

// InSameLoop reports whether a and b lie in the same innermost natural loop (both in none counts as false).
func InSameLoop(a, b ssa.Instruction) bool {
	_, ha := LoopOf(a.Block())
	_, hb := LoopOf(b.Block())
	return ha != nil && ha == hb
}

// RejectsOnly: every return that can be reached over the rejecting edge of t (without executing the test again) is a failure
// return, and there is at least one. failVals are values known to be non-nil errors on that edge.
func RejectsOnly(t Test, failVals map[ssa.Value]bool, boolFail *bool) bool {
	if t.Fail == t.OK {
		return false
	}
	fn := t.If.Parent()
	if failVals != nil && t.Value != nil {
		bad, n := FailEdgeBadReturns(t, t.Value, ErrNonNil, map[*ssa.BasicBlock]bool{t.If.Block(): true}, boolFail)
		return n > 0 && len(bad) == 0
	}
	r := reach([]*ssa.BasicBlock{t.Fail}, map[*ssa.BasicBlock]bool{t.If.Block(): true}, nil)
	any := false
	for _, ret := range Returns(fn) {
		if !r[ret.Block()] {
			continue
		}
		any = true
		if ClassifyReturn(ret, failVals, boolFail) != RetFailure {
			return false
		}
	}
	return any
}

// SuccessNeedsOneOf: once the accepting edges of all the given tests are removed, no possibly successful return of fn is
// reachable from the entry — every success path of fn runs over the accepting edge of at least one of the tests.
func SuccessNeedsOneOf(fn *ssa.Function, tests []Test, boolFail *bool) bool {
	if len(tests) == 0 {
		return false
	}
	cut := map[[2]*ssa.BasicBlock]bool{}
	for _, t := range tests {
		if t.OK == t.Fail {
			return false
		}
		cut[[2]*ssa.BasicBlock{t.If.Block(), t.OK}] = true
	}
	r := reach([]*ssa.BasicBlock{fn.Blocks[0]}, nil, cut)
	for _, ret := range Returns(fn) {
		if r[ret.Block()] && ClassifyReturn(ret, nil, boolFail) != RetFailure {
			return false
		}
	}
	return true
}

// ReachableWithCut: is block `to` reachable from the entry of its function when the given edges are removed?
func ReachableWithCut(to *ssa.BasicBlock, cutEdges ...[2]*ssa.BasicBlock) bool {
	cut := map[[2]*ssa.BasicBlock]bool{}
	for _, e := range cutEdges {
		cut[e] = true
	}
	return reach([]*ssa.BasicBlock{to.Parent().Blocks[0]}, nil, cut)[to]
}

// SameCond: a and b are the same SSA value or structurally identical pure expressions (BinOp/UnOp/len over identical SSA
// operands and equal constants, three levels deep): `n >= 1` evaluated twice is the same condition.
func SameCond(a, b ssa.Value) bool { return sameExpr(a, b, 0) }

func sameExpr(a, b ssa.Value, depth int) bool {
	if a == b {
		return true
	}
	if a == nil || b == nil || depth > 3 {
		return false
	}
	switch x := a.(type) {
	case *ssa.Const:
		y, ok := b.(*ssa.Const)
		if !ok || !types.Identical(x.Type(), y.Type()) {
			return false
		}
		if x.Value == nil || y.Value == nil {
			return x.Value == nil && y.Value == nil
		}
		return constant.Compare(x.Value, token.EQL, y.Value)
	case *ssa.BinOp:
		y, ok := b.(*ssa.BinOp)
		return ok && x.Op == y.Op && sameExpr(x.X, y.X, depth+1) && sameExpr(x.Y, y.Y, depth+1)
	case *ssa.UnOp:
		y, ok := b.(*ssa.UnOp)
		return ok && x.Op == y.Op && x.Op != token.MUL && x.Op != token.ARROW && sameExpr(x.X, y.X, depth+1)
	case *ssa.Convert:
		y, ok := b.(*ssa.Convert)
		return ok && types.Identical(x.Type(), y.Type()) && sameExpr(x.X, y.X, depth+1)
	case *ssa.Call:
		y, ok := b.(*ssa.Call)
		if !ok {
			return false
		}
		bx, okx := x.Call.Value.(*ssa.Builtin)
		by, oky := y.Call.Value.(*ssa.Builtin)
		if !okx || !oky || bx.Name() != by.Name() || (bx.Name() != "len" && bx.Name() != "cap") {
			return false
		}
		return len(x.Call.Args) == 1 && len(y.Call.Args) == 1 && sameExpr(x.Call.Args[0], y.Call.Args[0], depth+1)
	}
	return false
}

// BuiltinCallName returns the name of the builtin a call instruction invokes ("" when it is not a builtin call).
func BuiltinCallName(ci ssa.CallInstruction) string {
	if b, ok := ci.Common().Value.(*ssa.Builtin); ok {
		return b.Name()
	}
	return ""
}

// SliceHasLenOf: does the slice contain len(x) for a value x carried by `of` (Derived set)?
func SliceHasLenOf(sl map[ssa.Value]bool, of map[ssa.Value]bool) bool {
	for v := range sl {
		if c, ok := v.(*ssa.Call); ok && BuiltinCallName(c) == "len" && len(c.Call.Args) == 1 && of[c.Call.Args[0]] {
			return true
		}
	}
	return false
}

// SamePlaceLoad: a and b are the same value, or loads of the same local place (same cell, same field path) such that no
// direct store to the cell can execute between them (a dominates b).
func SamePlaceLoad(a, b ssa.Value) bool {
	if a == b {
		return true
	}
	la, ok1 := a.(*ssa.UnOp)
	lb, ok2 := b.(*ssa.UnOp)
	if !ok1 || !ok2 || la.Op != token.MUL || lb.Op != token.MUL {
		return false
	}
	ra, pa := placeOf(la.X)
	rb, pb := placeOf(lb.X)
	if ra == nil || ra != rb || pa != pb {
		return false
	}
	first, second := la, lb
	if !Dominates(first, second) {
		first, second = lb, la
		if !Dominates(first, second) {
			return false
		}
	}
	if ra.Referrers() != nil {
		for _, r := range *ra.Referrers() {
			if st, ok := r.(*ssa.Store); ok && st.Addr == ra && Dominates(first, st) && ReachableAfter(st, second) {
				return false
			}
		}
	}
	return true
}

// placeOf resolves an address to (local cell, field path) for addresses of the form &cell.f.g; nil otherwise.
func placeOf(addr ssa.Value) (*ssa.Alloc, string) {
	path := ""
	for {
		switch x := addr.(type) {
		case *ssa.Alloc:
			return x, path
		case *ssa.FieldAddr:
			path = "." + FieldOf(x).Name() + path
			addr = x.X
		default:
			return nil, ""
		}
	}
}

// naturalLoops returns every natural loop of fn as header → body (loops sharing a header are merged).
func naturalLoops(fn *ssa.Function) map[*ssa.BasicBlock]map[*ssa.BasicBlock]bool {
	out := map[*ssa.BasicBlock]map[*ssa.BasicBlock]bool{}
	for _, u := range fn.Blocks {
		for _, h := range u.Succs {
			if !h.Dominates(u) {
				continue
			}
			body := out[h]
			if body == nil {
				body = map[*ssa.BasicBlock]bool{h: true}
				out[h] = body
			}
			stack := []*ssa.BasicBlock{u}
			for len(stack) > 0 {
				x := stack[len(stack)-1]
				stack = stack[:len(stack)-1]
				if body[x] {
					continue
				}
				body[x] = true
				stack = append(stack, x.Preds...)
			}
		}
	}
	return out
}
