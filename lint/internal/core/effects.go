package core

import (
	"fmt"
	"go/token"
	"go/types"
	"sort"
	"strings"

	"golang.org/x/tools/go/ssa"
)

// Effects: abstract write sets of functions, as access paths rooted at parameters, computed inter-procedurally with one level of
// context: interface-typed parameters are bound to the concrete types seen at the call site and boolean constant arguments prune
// the callee's branches on them. Used for "undo covers do", "field is not written after the check", "opcode writes state".

// Sel is one selector of an access path together with the named type of the object it leads to ("" if not a named/pointer-to-named type).
type Sel struct {
	Name string
	Type string
}

// Path is an access path: a parameter (Root >= 0), a package-level variable (Root == -1) or a free variable of a closure (Root <= -100).
type Path struct {
	Root     int
	RootName string // type of the root parameter, or name of the global
	Sels     []Sel
}

const maxPathLen = 9

func (p *Path) String() string {
	var sb strings.Builder
	if p.Root == -1 {
		sb.WriteString("global " + p.RootName)
	} else {
		fmt.Fprintf(&sb, "%s", p.RootName)
	}
	for _, s := range p.Sels {
		sb.WriteString(".")
		sb.WriteString(s.Name)
	}
	return sb.String()
}

func (p *Path) extend(name string, t types.Type) *Path {
	if p == nil {
		return nil
	}
	if len(p.Sels) >= maxPathLen {
		return p
	}
	n := &Path{Root: p.Root, RootName: p.RootName, Sels: append(append([]Sel{}, p.Sels...), Sel{name, namedOf(t)})}
	return n
}

func (p *Path) concat(tail []Sel) *Path {
	n := &Path{Root: p.Root, RootName: p.RootName, Sels: append([]Sel{}, p.Sels...)}
	for _, s := range tail {
		if len(n.Sels) >= maxPathLen {
			break
		}
		n.Sels = append(n.Sels, s)
	}
	return n
}

// SuffixFrom projects the path onto objects of the named type: it returns the selectors after the first position where the path
// reaches an object of that type (the root counts), and whether such a position exists.
func (p *Path) SuffixFrom(typeName string) (string, bool) {
	start := -1
	if (p.Root >= 0 || p.Root == -2) && p.RootName == typeName {
		start = 0
	} else {
		for i, s := range p.Sels {
			if s.Type == typeName {
				start = i + 1
				break
			}
		}
	}
	if start < 0 {
		return "", false
	}
	var names []string
	for _, s := range p.Sels[start:] {
		names = append(names, s.Name)
	}
	return strings.Join(names, "."), true
}

func namedOf(t types.Type) string {
	if t == nil {
		return ""
	}
	for {
		switch x := t.(type) {
		case *types.Pointer:
			t = x.Elem()
			continue
		case *types.Named:
			if x.Obj().Pkg() != nil {
				return shortPkg(x.Obj().Pkg().Path()) + "." + x.Obj().Name()
			}
			return x.Obj().Name()
		}
		return ""
	}
}

// EffectSet is the result for one function in one context.
type EffectSet struct {
	Writes     map[string]*Path
	Unresolved []string // interface calls on the relevant interfaces that could not be devirtualised
	retPath    []*Path
	retType    []types.Type
	retFresh   []bool
}

// Binding is the calling context: concrete types of interface-typed parameters and constant boolean parameters.
type Binding struct {
	Types  map[int]types.Type
	Consts map[int]bool
}

func (b Binding) key() string {
	var ks []string
	for i, t := range b.Types {
		ks = append(ks, fmt.Sprintf("%d=%s", i, t.String()))
	}
	for i, c := range b.Consts {
		ks = append(ks, fmt.Sprintf("%d:%v", i, c))
	}
	sort.Strings(ks)
	return strings.Join(ks, ",")
}

// EffectAnalysis holds the memo table.
type EffectAnalysis struct {
	P *Program
	// Descend decides whether the body of a callee is analysed (otherwise it is an effect-free leaf).
	Descend func(fn *ssa.Function) bool
	// Relevant decides whether an unresolved interface call must be reported (by the interface's named type).
	Relevant func(iface *types.Named) bool
	memo     map[string]*EffectSet
	onStack  map[string]bool
}

// NewEffectAnalysis creates an analysis that descends into the given packages (module-relative paths or full import paths).
func NewEffectAnalysis(p *Program, pkgs ...string) *EffectAnalysis {
	set := map[string]bool{}
	for _, k := range pkgs {
		set[k] = true
	}
	return &EffectAnalysis{P: p, memo: map[string]*EffectSet{}, onStack: map[string]bool{},
		Descend: func(fn *ssa.Function) bool {
			r := fn
			for r.Parent() != nil {
				r = r.Parent()
			}
			var path string
			if r.Pkg != nil {
				path = r.Pkg.Pkg.Path()
			} else if o := r.Object(); o != nil && o.Pkg() != nil {
				path = o.Pkg().Path()
			}
			return set[path] || set[strings.TrimPrefix(strings.TrimPrefix(path, ModPath), "/")]
		},
		Relevant: func(*types.Named) bool { return false },
	}
}

// Of computes the effects of fn under binding b.
func (ea *EffectAnalysis) Of(fn *ssa.Function, b Binding) *EffectSet {
	key := fn.String() + "|" + b.key()
	if e, ok := ea.memo[key]; ok {
		return e
	}
	res := &EffectSet{Writes: map[string]*Path{}}
	if ea.onStack[key] || fn.Blocks == nil {
		return res
	}
	ea.onStack[key] = true
	defer delete(ea.onStack, key)
	st := &effState{ea: ea, fn: fn, b: b, res: res, paths: map[ssa.Value]*Path{}, pathDone: map[ssa.Value]bool{}, ctypes: map[ssa.Value]types.Type{}, ctDone: map[ssa.Value]bool{}}
	st.run()
	ea.memo[key] = res
	return res
}

type effState struct {
	ea       *EffectAnalysis
	fn       *ssa.Function
	b        Binding
	res      *EffectSet
	paths    map[ssa.Value]*Path
	pathDone map[ssa.Value]bool
	ctypes   map[ssa.Value]types.Type
	ctDone   map[ssa.Value]bool
}

func (s *effState) addWrite(p *Path) {
	if p == nil {
		return
	}
	s.res.Writes[p.String()] = p
}

// live computes the blocks reachable when branches on constant boolean parameters are pruned.
func (s *effState) live() map[*ssa.BasicBlock]bool {
	cut := map[[2]*ssa.BasicBlock]bool{}
	for _, blk := range s.fn.Blocks {
		if len(blk.Instrs) == 0 {
			continue
		}
		ifi, ok := blk.Instrs[len(blk.Instrs)-1].(*ssa.If)
		if !ok {
			continue
		}
		val, known := s.constBool(ifi.Cond)
		if !known {
			continue
		}
		if val {
			cut[[2]*ssa.BasicBlock{blk, blk.Succs[1]}] = true
		} else {
			cut[[2]*ssa.BasicBlock{blk, blk.Succs[0]}] = true
		}
	}
	return reach([]*ssa.BasicBlock{s.fn.Blocks[0]}, nil, cut)
}

func (s *effState) constBool(v ssa.Value) (bool, bool) {
	if bv, ok := BoolConst(v); ok {
		return bv, true
	}
	switch x := v.(type) {
	case *ssa.Parameter:
		for i, p := range s.fn.Params {
			if p == x {
				if c, ok := s.b.Consts[i]; ok {
					return c, true
				}
			}
		}
	case *ssa.UnOp:
		if x.Op == token.NOT {
			if c, ok := s.constBool(x.X); ok {
				return !c, true
			}
		}
	}
	return false, false
}

func (s *effState) run() {
	live := s.live()
	for _, blk := range s.fn.Blocks {
		if !live[blk] {
			continue
		}
		for _, in := range blk.Instrs {
			switch x := in.(type) {
			case *ssa.Store:
				if _, isLocal := x.Addr.(*ssa.Alloc); isLocal {
					continue
				}
				s.addWrite(s.path(x.Addr))
			case *ssa.MapUpdate:
				if p := s.path(x.Map); p != nil {
					s.addWrite(p.extend("[]", nil))
				}
			case ssa.CallInstruction:
				if _, isGo := x.(*ssa.Go); isGo {
					continue
				}
				s.call(x)
			}
		}
	}
	// return summaries
	sig := s.fn.Signature
	n := sig.Results().Len()
	s.res.retPath = make([]*Path, n)
	s.res.retType = make([]types.Type, n)
	s.res.retFresh = make([]bool, n)
	for i := range s.res.retFresh {
		s.res.retFresh[i] = true
	}
	first := true
	for _, r := range Returns(s.fn) {
		if !live[r.Block()] {
			continue
		}
		for i := 0; i < n && i < len(r.Results); i++ {
			v := ResolveSpill(r.Results[i])
			if IsNilConst(v) {
				continue
			}
			if !s.fresh(v, 0) {
				s.res.retFresh[i] = false
			}
			p, t := s.path(v), s.ctype(v)
			if first || s.res.retPath[i] == nil && s.res.retType[i] == nil {
				s.res.retPath[i], s.res.retType[i] = p, t
				continue
			}
			if p == nil || s.res.retPath[i] == nil || p.String() != s.res.retPath[i].String() {
				s.res.retPath[i] = nil
			}
			if t == nil || s.res.retType[i] == nil || !types.Identical(t, s.res.retType[i]) {
				s.res.retType[i] = nil
			}
		}
		first = false
	}
}

// callee resolves the target of a call in this context (nil if unknown / leaf).
func (s *effState) callee(ci ssa.CallInstruction) (*ssa.Function, []ssa.Value) {
	cc := ci.Common()
	if cc.IsInvoke() {
		t := s.ctype(cc.Value)
		if t == nil {
			// a single repository implementation of the interface?
			if n, ok := cc.Value.Type().(*types.Named); ok && s.ea.Relevant(n) {
				s.res.Unresolved = append(s.res.Unresolved, fmt.Sprintf("%s.%s in %s", n.Obj().Name(), cc.Method.Name(), FuncName(s.fn)))
			}
			return nil, nil
		}
		obj, _, _ := types.LookupFieldOrMethod(t, true, cc.Method.Pkg(), cc.Method.Name())
		f, ok := obj.(*types.Func)
		if !ok {
			return nil, nil
		}
		fn := s.ea.P.FuncOf(f)
		if fn == nil {
			fn = s.ea.P.SSA.MethodValue(types.NewMethodSet(t).Lookup(cc.Method.Pkg(), cc.Method.Name()))
		}
		return fn, append([]ssa.Value{cc.Value}, cc.Args...)
	}
	if b, ok := cc.Value.(*ssa.Builtin); ok {
		switch b.Name() {
		case "delete":
			if p := s.path(cc.Args[0]); p != nil {
				s.addWrite(p.extend("[]", nil))
			}
		case "copy":
			if p := s.path(cc.Args[0]); p != nil {
				s.addWrite(p.extend("[]", nil))
			}
		}
		return nil, nil
	}
	if sc := cc.StaticCallee(); sc != nil {
		return sc, cc.Args
	}
	return nil, nil
}

func (s *effState) call(ci ssa.CallInstruction) {
	fn, args := s.callee(ci)
	if fn == nil || fn.Blocks == nil || !s.ea.Descend(fn) {
		return
	}
	// closures: free variables are not modelled; bound methods resolve through their wrapper's body
	sub := s.ea.Of(fn, s.bindingFor(fn, args))
	for _, w := range sub.Writes {
		if w.Root == -1 || w.Root == -2 {
			s.addWrite(w)
			continue
		}
		if w.Root < 0 || w.Root >= len(args) {
			continue
		}
		base := s.path(args[w.Root])
		if base == nil {
			continue
		}
		s.addWrite(base.concat(w.Sels))
	}
	s.res.Unresolved = append(s.res.Unresolved, sub.Unresolved...)
}

func (s *effState) bindingFor(fn *ssa.Function, args []ssa.Value) Binding {
	b := Binding{Types: map[int]types.Type{}, Consts: map[int]bool{}}
	for i, a := range args {
		if i >= len(fn.Params) {
			break
		}
		if types.IsInterface(fn.Params[i].Type()) {
			if t := s.ctype(a); t != nil {
				b.Types[i] = t
			}
		}
		if c, ok := s.constBool(a); ok {
			b.Consts[i] = c
		}
	}
	return b
}

// ctype: the concrete dynamic type of an interface value, when it is the same on all paths.
func (s *effState) ctype(v ssa.Value) types.Type {
	if s.ctDone[v] {
		return s.ctypes[v]
	}
	s.ctDone[v] = true
	var t types.Type
	if !types.IsInterface(v.Type()) {
		t = v.Type()
	} else {
		switch x := v.(type) {
		case *ssa.MakeInterface:
			t = x.X.Type()
		case *ssa.ChangeInterface:
			t = s.ctype(x.X)
		case *ssa.Parameter:
			for i, p := range s.fn.Params {
				if p == x {
					t = s.b.Types[i]
				}
			}
		case *ssa.Call:
			if fn, args := s.callee(x); fn != nil && fn.Blocks != nil {
				sub := s.ea.Of(fn, s.bindingFor(fn, args))
				if len(sub.retType) > 0 {
					t = sub.retType[0]
				}
			}
		case *ssa.Extract:
			if c, ok := x.Tuple.(*ssa.Call); ok {
				if fn, args := s.callee(c); fn != nil && fn.Blocks != nil {
					sub := s.ea.Of(fn, s.bindingFor(fn, args))
					if x.Index < len(sub.retType) {
						t = sub.retType[x.Index]
					}
				}
			}
		case *ssa.Phi:
			for _, e := range x.Edges {
				if IsNilConst(e) {
					continue
				}
				et := s.ctype(e)
				if et == nil || (t != nil && !types.Identical(t, et)) {
					t = nil
					break
				}
				t = et
			}
		case *ssa.UnOp:
			if al, ok := x.X.(*ssa.Alloc); ok && x.Op == token.MUL {
				t = s.singleStore(al, func(v ssa.Value) types.Type { return s.ctype(v) })
			} else if x.Op == token.MUL {
				// a field holding an interface: resolved only through the single-implementation rule below
			}
		}
		if t == nil {
			t = s.singleImpl(v.Type())
		}
	}
	s.ctypes[v] = t
	return t
}

// singleImpl: an interface with exactly one implementing type in the packages the analysis descends into resolves to it.
func (s *effState) singleImpl(it types.Type) types.Type {
	n, ok := it.(*types.Named)
	if !ok {
		return nil
	}
	iface, ok := n.Underlying().(*types.Interface)
	if !ok || iface.NumMethods() == 0 {
		return nil
	}
	var found types.Type
	for _, pk := range s.ea.P.Pkgs {
		sc := pk.Types.Scope()
		for _, name := range sc.Names() {
			tn, ok := sc.Lookup(name).(*types.TypeName)
			if !ok || tn.IsAlias() {
				continue
			}
			nt, ok := tn.Type().(*types.Named)
			if !ok {
				continue
			}
			if _, isI := nt.Underlying().(*types.Interface); isI {
				continue
			}
			var impl types.Type
			if types.Implements(nt, iface) {
				impl = nt
			} else if types.Implements(types.NewPointer(nt), iface) {
				impl = types.NewPointer(nt)
			}
			if impl == nil {
				continue
			}
			if strings.HasSuffix(s.ea.P.Fset.Position(tn.Pos()).Filename, "_test.go") {
				continue
			}
			if found != nil {
				return nil
			}
			found = impl
		}
	}
	return found
}

func (s *effState) singleStore(al *ssa.Alloc, f func(ssa.Value) types.Type) types.Type {
	var t types.Type
	if al.Referrers() == nil {
		return nil
	}
	for _, r := range *al.Referrers() {
		if st, ok := r.(*ssa.Store); ok && st.Addr == al {
			if IsNilConst(st.Val) {
				continue
			}
			et := f(st.Val)
			if et == nil || (t != nil && !types.Identical(t, et)) {
				return nil
			}
			t = et
		}
	}
	return t
}

// path: the access path of a value (nil = fresh or unknown memory).
func (s *effState) path(v ssa.Value) *Path {
	if s.pathDone[v] {
		return s.paths[v]
	}
	s.pathDone[v] = true
	var p *Path
	switch x := v.(type) {
	case *ssa.Parameter:
		for i, q := range s.fn.Params {
			if q == x {
				p = &Path{Root: i, RootName: namedOf(x.Type())}
				if t, ok := s.b.Types[i]; ok {
					p.RootName = namedOf(t)
				}
			}
		}
	case *ssa.Global:
		p = &Path{Root: -1, RootName: shortPkg(x.Pkg.Pkg.Path()) + "." + x.Name()}
	case *ssa.FieldAddr:
		p = s.path(x.X).extend(FieldOf(x).Name(), FieldOf(x).Type())
	case *ssa.Field:
		p = s.path(x.X).extend(FieldOf(x).Name(), FieldOf(x).Type())
	case *ssa.IndexAddr:
		p = s.path(x.X).extend("[]", elemType(x.X.Type()))
	case *ssa.Index:
		p = s.path(x.X).extend("[]", elemType(x.X.Type()))
	case *ssa.Lookup:
		p = s.path(x.X).extend("[]", elemType(x.X.Type()))
	case *ssa.Extract:
		switch t := x.Tuple.(type) {
		case *ssa.Lookup:
			if x.Index == 0 {
				p = s.path(t.X).extend("[]", elemType(t.X.Type()))
			}
		case *ssa.Call:
			p = s.callResultPath(t, x.Index)
		case *ssa.TypeAssert:
			if x.Index == 0 {
				p = s.path(t.X)
			}
		}
	case *ssa.Call:
		p = s.callResultPath(x, 0)
	case *ssa.UnOp:
		if x.Op == token.MUL {
			if al, ok := x.X.(*ssa.Alloc); ok {
				// local variable: the single value stored into it
				var only *Path
				cnt := 0
				if al.Referrers() != nil {
					for _, r := range *al.Referrers() {
						if st, ok := r.(*ssa.Store); ok && st.Addr == al {
							cnt++
							only = s.path(st.Val)
						}
					}
				}
				if cnt == 1 {
					p = only
				}
			} else {
				p = s.path(x.X)
			}
		}
	case *ssa.Slice:
		p = s.path(x.X)
	case *ssa.ChangeType:
		p = s.path(x.X)
	case *ssa.Convert:
		p = s.path(x.X)
	case *ssa.ChangeInterface:
		p = s.path(x.X)
	case *ssa.MakeInterface:
		p = s.path(x.X)
	case *ssa.TypeAssert:
		p = s.path(x.X)
	case *ssa.Phi:
		for _, e := range x.Edges {
			if IsNilConst(e) {
				continue
			}
			ep := s.path(e)
			if ep == nil || (p != nil && ep.String() != p.String()) {
				p = nil
				break
			}
			p = ep
		}
	}
	if p == nil && !s.fresh(v, 0) {
		// memory we cannot name, but whose type we know: "some object of type T"
		t := v.Type()
		if types.IsInterface(t) {
			t = s.ctype(v)
		}
		if n := namedOf(t); n != "" {
			p = &Path{Root: -2, RootName: n}
		}
	}
	s.paths[v] = p
	return p
}

// fresh: the value certainly points to memory allocated in this activation (or is not a reference at all).
func (s *effState) fresh(v ssa.Value, depth int) bool {
	if depth > 4 {
		return false
	}
	switch x := v.(type) {
	case *ssa.Alloc, *ssa.MakeMap, *ssa.MakeSlice, *ssa.MakeChan, *ssa.MakeClosure, *ssa.Const:
		return true
	case *ssa.FieldAddr:
		return s.fresh(x.X, depth+1)
	case *ssa.IndexAddr:
		return s.fresh(x.X, depth+1)
	case *ssa.Slice:
		return s.fresh(x.X, depth+1)
	case *ssa.ChangeType:
		return s.fresh(x.X, depth+1)
	case *ssa.MakeInterface:
		return s.fresh(x.X, depth+1)
	case *ssa.Convert:
		return true
	case *ssa.BinOp:
		return true
	case *ssa.Call:
		if fn, args := s.callee(x); fn != nil && fn.Blocks != nil {
			sub := s.ea.Of(fn, s.bindingFor(fn, args))
			return len(sub.retFresh) > 0 && sub.retFresh[0]
		}
		if b, ok := x.Call.Value.(*ssa.Builtin); ok && b.Name() == "append" {
			return false
		}
	case *ssa.UnOp:
		if al, ok := x.X.(*ssa.Alloc); ok && x.Op == token.MUL && al.Referrers() != nil {
			all := true
			n := 0
			for _, r := range *al.Referrers() {
				if st, ok := r.(*ssa.Store); ok && st.Addr == al {
					n++
					if !s.fresh(st.Val, depth+1) {
						all = false
					}
				}
			}
			return all && n > 0
		}
	}
	return false
}

func (s *effState) callResultPath(c *ssa.Call, idx int) *Path {
	fn, args := s.callee(c)
	if fn == nil || fn.Blocks == nil || !s.ea.Descend(fn) {
		return nil
	}
	sub := s.ea.Of(fn, s.bindingFor(fn, args))
	if idx >= len(sub.retPath) || sub.retPath[idx] == nil {
		return nil
	}
	rp := sub.retPath[idx]
	if rp.Root == -1 || rp.Root == -2 {
		return rp
	}
	if rp.Root < 0 || rp.Root >= len(args) {
		return nil
	}
	base := s.path(args[rp.Root])
	if base == nil {
		return nil
	}
	return base.concat(rp.Sels)
}

func elemType(t types.Type) types.Type {
	switch x := t.Underlying().(type) {
	case *types.Pointer:
		return elemType(x.Elem())
	case *types.Slice:
		return x.Elem()
	case *types.Array:
		return x.Elem()
	case *types.Map:
		return x.Elem()
	}
	return nil
}

// WritesOn projects the write set onto objects of the named type ("account.Account"): the set of selector suffixes.
func (e *EffectSet) WritesOn(typeName string) map[string]bool {
	out := map[string]bool{}
	for _, w := range e.Writes {
		if suf, ok := w.SuffixFrom(typeName); ok && suf != "" {
			out[suf] = true
		}
	}
	return out
}
