package core

import (
	"go/constant"
	"go/token"
	"go/types"

	"golang.org/x/tools/go/ssa"
)

// EvalConst partially evaluates a small pure function for constant arguments (abstract interpretation over the SSA form, no code is run):
// integer / boolean / string constants, comparisons and arithmetic on them, branches, phis, conversions, and lookups in local arrays or
// composite literals that are filled with constants at constant indices (lookup tables). It returns the constant the function returns,
// or ok=false when it meets anything else (calls, loads of shared memory, loops beyond the step bound).
func EvalConst(fn *ssa.Function, args map[int]constant.Value) (constant.Value, bool) {
	if fn == nil || len(fn.Blocks) == 0 {
		return nil, false
	}
	env := map[ssa.Value]constant.Value{}
	for i, p := range fn.Params {
		if v, ok := args[i]; ok {
			env[p] = v
		}
	}
	// constant stores into local arrays: alloc -> index -> value
	tables := map[*ssa.Alloc]map[int64]constant.Value{}
	val := func(v ssa.Value) (constant.Value, bool) {
		if c, ok := v.(*ssa.Const); ok {
			if c.Value == nil {
				return nil, false
			}
			return c.Value, true
		}
		x, ok := env[v]
		return x, ok
	}
	var prev *ssa.BasicBlock
	b := fn.Blocks[0]
	for steps := 0; steps < 400; steps++ {
		var next *ssa.BasicBlock
		for _, in := range b.Instrs {
			switch x := in.(type) {
			case *ssa.Phi:
				for i, p := range b.Preds {
					if p == prev {
						if v, ok := val(x.Edges[i]); ok {
							env[x] = v
						}
					}
				}
			case *ssa.BinOp:
				l, ok1 := val(x.X)
				r, ok2 := val(x.Y)
				if !ok1 || !ok2 {
					continue
				}
				switch x.Op {
				case token.EQL, token.NEQ, token.LSS, token.LEQ, token.GTR, token.GEQ:
					if l.Kind() == constant.Bool {
						if x.Op == token.EQL {
							env[x] = constant.MakeBool(constant.BoolVal(l) == constant.BoolVal(r))
						} else if x.Op == token.NEQ {
							env[x] = constant.MakeBool(constant.BoolVal(l) != constant.BoolVal(r))
						}
						continue
					}
					env[x] = constant.MakeBool(constant.Compare(l, x.Op, r))
				case token.ADD, token.SUB, token.MUL, token.AND, token.OR, token.XOR:
					if l.Kind() == constant.Int && r.Kind() == constant.Int || l.Kind() == constant.String {
						env[x] = constant.BinaryOp(l, x.Op, r)
					}
				case token.QUO, token.REM:
					if l.Kind() == constant.Int && r.Kind() == constant.Int && constant.Sign(r) != 0 {
						op := x.Op
						if op == token.QUO {
							op = token.QUO_ASSIGN // integer division
						}
						env[x] = constant.BinaryOp(l, op, r)
					}
				case token.LAND, token.LOR:
				}
			case *ssa.UnOp:
				switch x.Op {
				case token.NOT:
					if v, ok := val(x.X); ok && v.Kind() == constant.Bool {
						env[x] = constant.MakeBool(!constant.BoolVal(v))
					}
				case token.SUB:
					if v, ok := val(x.X); ok && v.Kind() == constant.Int {
						env[x] = constant.UnaryOp(token.SUB, v, 0)
					}
				case token.MUL:
					// load of a table element
					if ia, ok := x.X.(*ssa.IndexAddr); ok {
						if g, ok := ia.X.(*ssa.Global); ok {
							if idx, ok := val(ia.Index); ok && idx.Kind() == constant.Int {
								i, _ := constant.Int64Val(idx)
								if v, ok := globalTableEntry(g, i, x.Type()); ok {
									env[x] = v
								}
							}
						}
						if al, ok := ia.X.(*ssa.Alloc); ok {
							if idx, ok := val(ia.Index); ok && idx.Kind() == constant.Int {
								i, _ := constant.Int64Val(idx)
								if v, ok := tables[al][i]; ok {
									env[x] = v
								} else if zv, ok := zeroConst(x.Type()); ok {
									env[x] = zv
								}
							}
						}
					}
				}
			case *ssa.Convert:
				if v, ok := val(x.X); ok {
					env[x] = v
				}
			case *ssa.ChangeType:
				if v, ok := val(x.X); ok {
					env[x] = v
				}
			case *ssa.Store:
				if ia, ok := x.Addr.(*ssa.IndexAddr); ok {
					if al, ok := ia.X.(*ssa.Alloc); ok {
						idx, ok1 := val(ia.Index)
						v, ok2 := val(x.Val)
						if ok1 && ok2 && idx.Kind() == constant.Int {
							i, _ := constant.Int64Val(idx)
							if tables[al] == nil {
								tables[al] = map[int64]constant.Value{}
							}
							tables[al][i] = v
						} else if ok1 {
							return nil, false // a table entry we cannot evaluate
						}
					}
				}
			case *ssa.Alloc, *ssa.IndexAddr, *ssa.DebugRef:
			case *ssa.Index:
				// indexing an array VALUE (composite literal held in a register): not modelled
			case *ssa.If:
				c, ok := val(x.Cond)
				if !ok || c.Kind() != constant.Bool {
					return nil, false
				}
				if constant.BoolVal(c) {
					next = b.Succs[0]
				} else {
					next = b.Succs[1]
				}
			case *ssa.Jump:
				next = b.Succs[0]
			case *ssa.Return:
				if len(x.Results) != 1 {
					return nil, false
				}
				return val(ResolveSpill(x.Results[0]))
			case *ssa.Call:
				// logging in the default branch etc. is not evaluated; a call whose value is used makes the dependent values unknown
			default:
			}
		}
		if next == nil {
			return nil, false
		}
		prev, b = b, next
	}
	return nil, false
}

func zeroConst(t types.Type) (constant.Value, bool) {
	b, ok := t.Underlying().(*types.Basic)
	if !ok {
		return nil, false
	}
	switch {
	case b.Info()&types.IsBoolean != 0:
		return constant.MakeBool(false), true
	case b.Info()&types.IsInteger != 0:
		return constant.MakeInt64(0), true
	case b.Info()&types.IsString != 0:
		return constant.MakeString(""), true
	}
	return nil, false
}

// globalTableEntry reads entry i of a package-level array that is a write-once lookup table: unexported, stored to only by the package
// initialiser, with constants at constant indices, and never handed out by address (every other use indexes it to load an element).
func globalTableEntry(g *ssa.Global, i int64, elem types.Type) (constant.Value, bool) {
	if g.Pkg == nil || g.Object() == nil || g.Object().Exported() {
		return nil, false
	}
	var found constant.Value
	var scan func(fn *ssa.Function) bool
	scan = func(fn *ssa.Function) bool {
		isInit := fn.Name() == "init" && fn.Parent() == nil && fn.Signature.Recv() == nil
		for _, b := range fn.Blocks {
			for _, in := range b.Instrs {
				for _, op := range in.Operands(nil) {
					if *op != ssa.Value(g) {
						continue
					}
					ia, ok := in.(*ssa.IndexAddr)
					if !ok {
						return false // the table escapes (slice of it, address passed on, whole-array store)
					}
					for _, r := range *ia.Referrers() {
						switch u := r.(type) {
						case *ssa.UnOp:
						case *ssa.Store:
							if u.Addr != ssa.Value(ia) || !isInit {
								return false
							}
							ic, ok1 := ia.Index.(*ssa.Const)
							vc, ok2 := u.Val.(*ssa.Const)
							if !ok1 || !ok2 || ic.Value == nil || vc.Value == nil {
								return false
							}
							if k, _ := constant.Int64Val(ic.Value); k == i {
								found = vc.Value
							}
						case *ssa.DebugRef:
						default:
							return false
						}
					}
				}
			}
		}
		for _, af := range fn.AnonFuncs {
			if !scan(af) {
				return false
			}
		}
		return true
	}
	for _, m := range g.Pkg.Members {
		switch m := m.(type) {
		case *ssa.Function:
			if !scan(m) {
				return nil, false
			}
		case *ssa.Type:
			for _, t := range []types.Type{m.Type(), types.NewPointer(m.Type())} {
				ms := g.Pkg.Prog.MethodSets.MethodSet(t)
				for k := 0; k < ms.Len(); k++ {
					if f := g.Pkg.Prog.MethodValue(ms.At(k)); f != nil && f.Pkg == g.Pkg {
						if !scan(f) {
							return nil, false
						}
					}
				}
			}
		}
	}
	if found != nil {
		return found, true
	}
	return zeroConst(elem)
}
