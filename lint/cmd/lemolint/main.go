// lemolint decides the structural clauses of the lemochain-core properties by static analysis.
//
//	lemolint check <Cxx>|all [--repo /repo] [--verif /verif] [--tier quick|thorough]
package main

import (
	"flag"
	"fmt"
	"os"
	"path/filepath"
	"sort"
	"strconv"
	"strings"
	"time"

	"verif/lint/internal/core"
	"verif/lint/internal/normalize"
	"verif/lint/internal/rules"
)

func main() {
	if len(os.Args) >= 2 && os.Args[1] == "funcs" {
		// lemolint funcs [--repo dir]: print the reference table of declared functions (reference/functions.txt)
		fs := flag.NewFlagSet("funcs", flag.ExitOnError)
		repo := fs.String("repo", "/repo", "repository")
		fs.Parse(os.Args[2:])
		abs, _ := filepath.Abs(*repo)
		scanned, err := normalize.Scan(abs)
		if err != nil {
			fmt.Println(err)
			os.Exit(2)
		}
		var keys []string
		for k := range scanned {
			keys = append(keys, k)
		}
		sort.Strings(keys)
		for _, k := range keys {
			fmt.Println(k)
		}
		return
	}
	if len(os.Args) >= 2 && os.Args[1] == "callers" {
		// lemolint callers [--repo dir]: print, for every private function with static callers, "<function spec>\t<caller spec>" lines
		fs := flag.NewFlagSet("callers", flag.ExitOnError)
		repo := fs.String("repo", "/repo", "repository")
		fs.Parse(os.Args[2:])
		abs, _ := filepath.Abs(*repo)
		prog, err := core.Load(abs, nil)
		if err != nil {
			fmt.Println(err)
			os.Exit(2)
		}
		for _, l := range core.PrivateCallers(prog) {
			fmt.Println(l)
		}
		return
	}
	if len(os.Args) < 3 || os.Args[1] != "check" {
		fmt.Println("usage: lemolint check <Cxx>|all [--repo dir] [--verif dir] [--tier quick|thorough] [--list]")
		os.Exit(2)
	}
	prop := os.Args[2]
	fs := flag.NewFlagSet("check", flag.ExitOnError)
	repo := fs.String("repo", "/repo", "repository to analyse")
	verif := fs.String("verif", "/verif", "verification directory (evidence, known findings)")
	tier := fs.String("tier", envOr("VERIF_TIER", "quick"), "quick|thorough")
	list := fs.Bool("list", false, "print every obligation")
	goenv := fs.String("goenv", "", "extra environment for the loader, e.g. CGO_ENABLED=0 (comma separated)")
	noEvidence := fs.Bool("no-evidence", false, "do not write evidence (used by the mutant self test)")
	fs.Parse(os.Args[3:])
	if *tier != "thorough" {
		*tier = "quick"
	}
	seed, _ := strconv.Atoi(os.Getenv("VERIF_SEED"))

	start := time.Now()
	absRepo, _ := filepath.Abs(*repo)
	var env []string
	if *goenv != "" {
		env = strings.Split(*goenv, ",")
	}
	// extract-function refactorings are undone first: private helpers the reference tree does not know are inlined into their callers
	var overlay map[string][]byte
	var normNotes []string
	if known, kerr := readKnown(filepath.Join(*verif, "reference", "functions.txt")); kerr == nil && os.Getenv("LEMOLINT_NO_NORMALIZE") == "" {
		if scanned, serr := normalize.Scan(absRepo); serr == nil && len(normalize.NewPrivate(scanned, known)) > 0 {
			res, nerr := normalize.Run(absRepo, env, known)
			switch {
			case nerr != nil:
				normNotes = append(normNotes, "normalisation of new private helpers failed, the tree is analysed as it is: "+nerr.Error())
			default:
				overlay = res.Overlay
				if d := os.Getenv("LEMOLINT_DUMP_NORMALIZED"); d != "" {
					for name, b := range overlay {
						rel, _ := filepath.Rel(absRepo, name)
						os.MkdirAll(filepath.Join(d, filepath.Dir(rel)), 0o755)
						os.WriteFile(filepath.Join(d, rel), b, 0o644)
					}
				}
				if len(res.Inlined) > 0 {
					normNotes = append(normNotes, "new private helpers inlined into their callers before the analysis: "+strings.Join(res.Inlined, ", "))
				}
				if len(res.Kept) > 0 {
					normNotes = append(normNotes, "new private helpers analysed as they are: "+strings.Join(res.Kept, "; "))
				}
			}
		}
	}
	core.RefCallers = readCallers(filepath.Join(*verif, "reference", "callers.txt"))
	prog, err := core.LoadOverlay(absRepo, env, overlay)
	if err != nil && overlay != nil {
		normNotes = append(normNotes, "the normalised tree does not load ("+err.Error()+"); the tree is analysed as it is")
		overlay = nil
		prog, err = core.LoadOverlay(absRepo, env, nil)
	}
	for _, n := range normNotes {
		fmt.Println("note:", n)
	}
	if err != nil {
		fmt.Println("load failed:", err)
		fmt.Printf("VIOLATION property=%s replay=load-failure\n", prop)
		os.Exit(1)
	}
	if len(prog.Pkgs) < 40 {
		fmt.Printf("only %d repository packages loaded\nVIOLATION property=%s replay=load-failure\n", len(prog.Pkgs), prop)
		os.Exit(1)
	}
	findings, err := core.LoadFindings(filepath.Join(*verif, "known_findings.json"))
	if err != nil {
		fmt.Println("cannot read known_findings.json:", err)
		os.Exit(2)
	}
	var props []string
	if prop == "all" {
		for id := range rules.All {
			props = append(props, id)
		}
		sort.Strings(props)
	} else {
		if rules.All[prop] == nil {
			fmt.Printf("no rules for %s\n", prop)
			os.Exit(2)
		}
		props = []string{prop}
	}
	status := 0
	scratch := ""
	for _, id := range props {
		t0 := time.Now()
		c := core.NewCtx(prog, id, *tier)
		for _, n := range normNotes {
			c.Note("%s", n)
		}
		func() {
			defer func() {
				if r := recover(); r != nil {
					c.Clause(id+".internal", "analyser integrity")
					c.Undecided("panic", "analyser-panic", 0, "the analyser panicked: %v", r)
				}
			}()
			rules.All[id](c)
		}()
		if *list {
			for _, o := range c.Obligations {
				fmt.Printf("  %-10s %s  [%s] %s %s\n", o.Status, o.Key, o.Rule, o.Pos, o.Detail)
			}
		}
		wall := time.Since(t0).Seconds()
		if len(props) == 1 {
			wall = time.Since(start).Seconds()
		}
		vd := *verif
		if *noEvidence {
			vd = filepath.Join(os.TempDir(), fmt.Sprintf("lemolint-noev-%d", os.Getpid()))
			scratch = vd
		}
		if st := core.Report(c, findings, vd, seed, wall, strings.Join(os.Args, " ")); st > status {
			status = st
		}
	}
	if scratch != "" {
		os.RemoveAll(scratch)
	}
	os.Exit(status)
}

func envOr(k, d string) string {
	if v := os.Getenv(k); v != "" {
		return v
	}
	return d
}

// readKnown reads the reference table of declared functions.
func readKnown(path string) (map[string]bool, error) {
	b, err := os.ReadFile(path)
	if err != nil {
		return nil, err
	}
	out := map[string]bool{}
	for _, l := range strings.Split(string(b), "\n") {
		if l != "" {
			out[l] = true
		}
	}
	if len(out) < 1000 {
		return nil, fmt.Errorf("reference table too small")
	}
	return out, nil
}

// readCallers reads reference/callers.txt (function spec -> reference caller specs).
func readCallers(path string) map[string][]string {
	out := map[string][]string{}
	b, err := os.ReadFile(path)
	if err != nil {
		return out
	}
	for _, l := range strings.Split(string(b), "\n") {
		p := strings.Split(l, "\t")
		if len(p) >= 2 {
			out[p[0]] = append(out[p[0]], p[1])
		}
		if len(p) == 4 {
			if n, err := strconv.Atoi(p[2]); err == nil {
				core.RefSizes[p[0]] = n
			}
			if n, err := strconv.Atoi(p[3]); err == nil {
				core.RefSizes[p[1]] = n
			}
		}
	}
	return out
}
